"""
Finite menus of kernels / metrics (names, parameter dictionaries, callables, precomputed matrices) and of
small generic datasets, shared by C01, C02, C11, C13.  A *spec* is a small json-able tuple; workers build
the actual objects from it.
"""
import numpy as np
from sklearn.metrics import pairwise_distances, pairwise_kernels


def dataset(n, d, seed, nonneg=False, scale=1.0):
    """Seed-generic data: continuous draws, no ties (pairwise distinct coordinates)."""
    rs = np.random.RandomState(10_000 + 97 * seed + 13 * n + d)
    while True:
        X = rs.normal(size=(n, d)) * scale
        if nonneg:
            X = np.abs(X) + 0.1
        flat = np.sort(X.reshape(-1))
        if n * d == 1 or np.min(np.diff(flat)) > 1e-3:
            return X


# (tag, sklearn name or special, params, needs non-negative data)
KERNEL_SPECS = [
    ("linear", "linear", None, False),
    ("rbf", "rbf", None, False),
    ("rbf_g", "rbf", {"gamma": 0.3}, False),
    ("poly_p", "poly", {"degree": 2, "coef0": 0.5, "gamma": 0.4}, False),
    ("polynomial", "polynomial", None, False),
    ("sigmoid_p", "sigmoid", {"gamma": 0.7, "coef0": -0.2}, False),
    ("laplacian_g", "laplacian", {"gamma": 0.4}, False),
    ("cosine", "cosine", None, False),
    ("additive_chi2", "additive_chi2", None, True),
    ("chi2_g", "chi2", {"gamma": 0.5}, True),
    ("poly_c0", "poly", {"degree": 2, "coef0": 0, "gamma": 0.5}, False),     # a zero-valued parameter that differs from the default
    ("poly_nog", "poly", {"degree": 2, "coef0": 0.5}, False),                # no gamma given: scikit-learn's default 1/n_features applies
    ("sigmoid_nog", "sigmoid", {"coef0": 0.3}, False),
    ("callable", "callable", None, False),
    ("pre_int", "precomputed", None, False),                                 # integer-typed symmetric matrix
    ("pre_tiny", "precomputed", None, False),                                # PSD matrix of magnitude 1e-10
    ("pre_huge", "precomputed", None, False),                                # PSD matrix of magnitude 1e8
    ("pre_psd", "precomputed", None, False),
    ("pre_indef", "precomputed", None, False),
    ("pre_roundsym", "precomputed", None, False),                            # PSD matrix that is symmetric only up to rounding (1e-17)
]
METRIC_SPECS = [
    ("euclidean", "euclidean", None),
    ("l2", "l2", None),
    ("l1", "l1", None),
    ("manhattan", "manhattan", None),
    ("cityblock", "cityblock", None),
    ("cosine", "cosine", None),
    ("sqeuclid_p", "euclidean", {"squared": True}),                          # a named cost with parameters that is NOT a metric (no triangle inequality)
    ("pre_metric", "precomputed", None),
    ("pre_sym", "precomputed", None),
    ("pre_intdist", "precomputed", None),
    ("pre_tinydist", "precomputed", None),                                   # distances of magnitude 1e-9
    ("pre_hugedist", "precomputed", None),
    ("pre_rounddist", "precomputed", None),                                  # hand-made 1 - similarity: diagonal +-1e-16, entries like -1e-17, symmetric up to rounding                                   # distances of magnitude 1e7                                    # integer-typed distances (hop counts)
]


def my_kernel(X, Y=None):
    """A callable kernel (not in scikit-learn's table): exp(-|x-y|_1) + x.y"""
    Y = X if Y is None else Y
    return np.exp(-np.abs(X[:, None, :] - Y[None, :, :]).sum(2)) + 0.3 * X @ Y.T


def my_kernel_pair(x, y):
    """The same kernel for two single samples (what sklearn's pairwise_kernels expects of a callable)."""
    return float(np.exp(-np.abs(x - y).sum()) + 0.3 * np.dot(x, y))


def my_metric(X, Y=None):
    Y = X if Y is None else Y
    return np.abs(X[:, None, :] - Y[None, :, :]).max(2)       # Chebyshev, as a callable


def sym_matrix(n, seed, kind):
    rs = np.random.RandomState(20_000 + 31 * seed + n)
    B = rs.normal(size=(n, n))
    if kind == "psd":
        return B @ B.T + 0.1 * np.eye(n)
    if kind == "indef":
        return (B + B.T) / 2.0
    if kind == "metric":                     # a genuine metric: shortest paths would be overkill; |a_i-a_j|+euclid
        Z = rs.normal(size=(n, 3))
        return np.sqrt(((Z[:, None] - Z[None]) ** 2).sum(2))
    if kind == "int":                        # integer dtype, symmetric
        M = rs.randint(-3, 6, size=(n, n))
        return (M + M.T).astype(np.int64)
    if kind == "intdist":                    # integer dtype distances, zero diagonal
        M = rs.randint(1, 5, size=(n, n))
        M = (M + M.T).astype(np.int64)
        np.fill_diagonal(M, 0)
        return M
    if kind == "symdist":                    # symmetric, zero diagonal, positive, not nec. triangle
        M = np.abs(B + B.T) + 0.2
        np.fill_diagonal(M, 0.0)
        return M
    raise ValueError(kind)


def kernel_reference(tag, X, seed):
    """(constructor kwargs, precomputed y or None, reference affinity) for a kernel spec tag."""
    spec = {s[0]: s for s in KERNEL_SPECS}[tag]
    _, name, params, _ = spec
    n = len(X)
    if name == "callable":
        return {"kernel": my_kernel}, None, my_kernel(X)
    if tag == "pre_psd":
        A = sym_matrix(n, seed, "psd")
        return {"kernel": "precomputed"}, A, A
    if tag == "pre_indef":
        A = sym_matrix(n, seed, "indef")
        return {"kernel": "precomputed"}, A, A
    if tag == "pre_int":
        A = sym_matrix(n, seed, "int")
        return {"kernel": "precomputed"}, A, A.astype(float)
    if tag == "pre_roundsym":
        A = sym_matrix(n, seed, "psd")
        A = A + 1e-17 * np.triu(np.abs(A), 1)
        return {"kernel": "precomputed"}, A, A
    if tag in ("pre_tiny", "pre_huge"):
        A = sym_matrix(n, seed, "psd") * (1e-10 if tag == "pre_tiny" else 1e8)
        return {"kernel": "precomputed"}, A, A
    ref = pairwise_kernels(X, metric=name, **(params or {}))
    kw = {"kernel": name}
    if params is not None:
        kw["kernel_params"] = dict(params)
    return kw, None, ref


def metric_reference(tag, X, seed):
    spec = {s[0]: s for s in METRIC_SPECS}[tag]
    _, name, params = spec
    n = len(X)
    if tag == "pre_metric":
        A = sym_matrix(n, seed, "metric")
        return {"metric": "precomputed"}, A, A
    if tag == "pre_sym":
        A = sym_matrix(n, seed, "symdist")
        return {"metric": "precomputed"}, A, A
    if tag == "pre_intdist":
        A = sym_matrix(n, seed, "intdist")
        return {"metric": "precomputed"}, A, A.astype(float)
    if tag == "pre_rounddist":
        A = sym_matrix(n, seed, "metric")
        A = A / max(1.0, A.max())
        A[np.diag_indices(n)] = 1e-16 * np.where(np.arange(n) % 2, 1.0, -1.0)
        A = A + 1e-17 * np.triu(np.ones((n, n)), 1)
        if n > 2:
            A[0, 1] = A[1, 0] = -1e-17          # two samples whose similarity rounds to slightly more than one
        return {"metric": "precomputed"}, A, A
    if tag in ("pre_tinydist", "pre_hugedist"):
        A = sym_matrix(n, seed, "metric") * (1e-9 if tag == "pre_tinydist" else 1e7)
        return {"metric": "precomputed"}, A, A
    ref = pairwise_distances(X, metric=name, **(params or {}))
    kw = {"metric": name}
    if params is not None:
        kw["metric_params"] = dict(params)
    return kw, None, ref


def needs_nonneg(tag):
    return {s[0]: s for s in KERNEL_SPECS}.get(tag, (0, 0, 0, False))[3]
