"""
Engine E3: stateless, deviation-bounded exploration of environment answers (the Go idiom of the guidance in Python).

run(script) executes the real code on a fresh object; `script` maps choice-point position -> index of a non-default
answer; every other choice point gets answer 0 (the default).  run returns (number of choice points reached, result).
All scripts with at most `bound` non-default answers placed on choice points that were actually reached (and below
`max_points`) are explored exactly once.  A scripted position that is not reached during replay is a hard error
(divergence while replaying a prefix).
"""


class ReplayDivergence(Exception):
    pass


def explore(run, n_answers, bound, max_points, root=None, include_root=True):
    """root: optional initial script (a shard of the exploration: everything that extends it);
    include_root=False skips reporting the root script itself (it belongs to the parent shard)."""
    root = dict(root or {})
    stack = [root]
    while stack:
        script = stack.pop()
        reached, result = run(script)
        last = max(script) if script else -1
        if reached <= last:
            if script == root:
                return          # this shard's root places an answer on a point that is never reached: empty shard
            raise ReplayDivergence(f"script {script} places an answer at point {last} but only {reached} points were reached")
        if include_root or script != root:
            yield script, reached, result
        if len(script) < bound:
            for pos in range(last + 1, min(reached, max_points)):
                for alt in range(1, n_answers):
                    s2 = dict(script)
                    s2[pos] = alt
                    stack.append(s2)
