"""
Json-able configuration specs for the 18 estimators -> real estimator + the *independently derived* expectation
(which distance, OvA/OvO, which affinity matrix) used by C04, C11, C12, C17, C18.

spec keys (all optional): n_clusters, max_iter, learning_rate, solver, batch_size, n_hidden_dim, reg, alpha, M, dynamic,
  groups, n_cuts, temperature, feature_mask, ovo, random_state,
  gemini   : registry name | None | ["MMD", kernel_tag, ovo] | ["W", metric_tag, ovo] | ["F", dist, ovo]
  kernel   : kernel tag of mc.affinity.KERNEL_SPECS   (MMD convenience estimators, Kauri)
  metric   : metric tag of METRIC_SPECS_EST           (Wasserstein convenience estimators)
  base_kernel: kernel tag (KernelRIM)
"""
import numpy as np
from sklearn.metrics import pairwise_distances, pairwise_kernels

from mc import affinity as aff
from mc import models as M
from oracles import gemini as gref

# metrics accepted by the estimators' own validation (PAIRWISE_DISTANCE_FUNCTIONS + precomputed + callable)
METRIC_SPECS_EST = aff.METRIC_SPECS + [("haversine", "haversine", None), ("nan_euclidean", "nan_euclidean", None),
                                       ("callable_metric", "callable", None)]
FDIST_CLASS = {"kl": "KLGEMINI", "tv": "TVGEMINI", "hellinger": "HellingerGEMINI", "chi2": "ChiSquareGEMINI"}


def _kernel(tag, X, seed, for_gemini=True):
    kw, y, A = aff.kernel_reference(tag, X, seed)
    return kw, y, A


def _metric(tag, X, seed):
    if tag == "callable_metric":
        return {"metric": aff.my_metric}, None, aff.my_metric(X)
    if tag in ("haversine", "nan_euclidean"):
        return {"metric": tag}, None, pairwise_distances(X, metric=tag)
    return aff.metric_reference(tag, X, seed)


def gemini_from_spec(g, X, seed):
    """-> (gemini constructor argument, y, (dist, mode, A_ref))"""
    import gemclus.gemini as G
    if g is None:
        return None, None, ("mmd", "ova", pairwise_kernels(X, metric="linear"))
    if isinstance(g, str):
        dist, mode = gref.REGISTRY[g]
        A = None
        if dist == "mmd":
            A = pairwise_kernels(X, metric="linear")
        elif dist == "wasserstein":
            A = pairwise_distances(X, metric="euclidean")
        return g, None, (dist, mode, A)
    fam, tag, ovo = g
    mode = "ovo" if ovo else "ova"
    if fam == "MMD":
        kw, y, A = _kernel(tag, X, seed)
        return G.MMDGEMINI(ovo=bool(ovo), **kw), y, ("mmd", mode, A)
    if fam == "W":
        kw, y, A = aff.metric_reference(tag, X, seed)
        return G.WassersteinGEMINI(ovo=bool(ovo), **kw), y, ("wasserstein", mode, A)
    if fam == "F":
        return getattr(G, FDIST_CLASS[tag])(ovo=bool(ovo)), None, (tag, mode, None)
    raise ValueError(g)


def build(name, spec, X, seed=0):
    """-> (estimator, y for fit/score, expectation dict or None for Kauri)"""
    X = np.asarray(X)
    if X.dtype != np.float32:
        X = X.astype(float)
    spec = dict(spec)
    kw = {}
    y = None
    expect = None
    for k in ("n_clusters", "max_iter", "learning_rate", "solver", "batch_size", "n_hidden_dim", "reg", "alpha", "M", "dynamic",
              "n_cuts", "temperature", "random_state", "max_clusters", "max_depth", "min_samples_split", "min_samples_leaf",
              "max_features", "max_leaves", "verbose", "_route"):
        if k in spec:
            kw[k] = spec[k]
    if "groups" in spec:
        kw["groups"] = None if spec["groups"] is None else [list(g) for g in spec["groups"]]
    if "feature_mask" in spec:
        kw["feature_mask"] = None if spec["feature_mask"] is None else np.array(spec["feature_mask"], dtype=bool)
    ovo = bool(spec.get("ovo", False))
    mode = "ovo" if ovo else "ova"
    if name in M.GENERIC_GEMINI:
        default = "wasserstein_ova" if name == "Douglas" else "mmd_ova"
        g = spec.get("gemini", default)
        arg, y, ex = gemini_from_spec(g, X, seed)
        kw["gemini"] = arg
        expect = dict(zip(("dist", "mode", "A"), ex))
    elif name in ("LinearMMD", "MLPMMD", "SparseLinearMMD", "SparseMLPMMD", "CategoricalMMD"):
        k2, y, A = _kernel(spec.get("kernel", "linear"), X, seed)
        kw.update(k2)
        kw["ovo"] = ovo
        expect = {"dist": "mmd", "mode": mode, "A": A}
    elif name in M.HAS_METRIC:
        k2, y, A = _metric(spec.get("metric", "euclidean"), X, seed)
        kw.update(k2)
        kw["ovo"] = ovo
        expect = {"dist": "wasserstein", "mode": mode, "A": A}
    elif name in ("RIM", "SparseLinearMI"):
        expect = {"dist": "kl", "mode": "ova", "A": None}
    elif name == "KernelRIM":
        tag = spec.get("base_kernel", "linear")
        if tag == "callable":
            kw["base_kernel"] = aff.my_kernel
            if "_base_kernel_params" in spec:          # documented: ignored (with a warning) for a callable, but stored as given
                kw["base_kernel_params"] = dict(spec["_base_kernel_params"])
        else:
            sp = {s[0]: s for s in aff.KERNEL_SPECS}[tag]
            kw["base_kernel"] = sp[1]
            if sp[2] is not None:
                kw["base_kernel_params"] = dict(sp[2])
        expect = {"dist": "kl", "mode": "ova", "A": None}
    elif name == "Kauri":
        tag = spec.get("kernel", "linear")
        if tag.startswith("pre_"):
            kw["kernel"] = "precomputed"
            _, y, Aref = aff.kernel_reference(tag, X, seed)
            expect = {"A": np.asarray(Aref, dtype=float)}
        elif tag == "callable":
            kw["kernel"] = aff.my_kernel_pair
            expect = {"A": aff.my_kernel(X)}
        else:
            sp = {s[0]: s for s in aff.KERNEL_SPECS}.get(tag, (tag, tag, None, False))   # tag or plain scikit-learn name
            kw["kernel"] = sp[1]
            expect = {"A": pairwise_kernels(X, metric=sp[1])}
    return M.make(name, **kw), y, expect


def reference_score(expect, P):
    return gref.ref_score_slack(np.asarray(P, dtype=float), expect["A"], expect["dist"], expect["mode"])
