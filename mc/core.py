"""
Shared machinery of the bounded-exhaustive explorers (DESIGN.md section 2).

An *explorer* is a finite, completely enumerated case space plus a per-case function that executes
the real implementation and evaluates an oracle.  Three shapes exist (all use this module):

  E1 lattice  - cases are points of a product of finite axes
  E2 bfs      - a case is a root (dataset, kernel, ...); the per-case function runs an explicit-state
                search over real objects and reports states/transitions in ``stats``
  E3 choices  - a case is a configuration; the per-case function runs the deviation-bounded
                environment-answer exploration and reports executions in ``stats``

The per-case function returns a dict
    {"v": [violation records], "nt": [keys of non-trivial cases], "out": [observed outcome keys],
     "stats": {"states": .., "transitions": .., "evals": ..}, "sample": json-able description}
Everything is executed with a multiprocessing pool (fork), deterministic sharding, per-case timeout.
"""
import hashlib
import importlib
import itertools
import json
import multiprocessing as mp
import os
import signal
import sys
import time
import traceback
from dataclasses import dataclass, field
from typing import Any, Callable, Iterable, Optional

import numpy as np

VERIF = os.path.dirname(os.path.dirname(os.path.abspath(__file__)))
REPO = os.environ.get("VERIF_REPO", "/repo")
REPO_PKG = os.path.join(REPO, "gemclus")
NPROC = int(os.environ.get("VERIF_WORKERS", "16"))


# ----------------------------------------------------------------------------- json helpers
class _Enc(json.JSONEncoder):
    def default(self, o):
        if isinstance(o, np.ndarray):
            return {"__nd__": o.tolist(), "dtype": str(o.dtype), "shape": list(o.shape)}
        if isinstance(o, (np.integer,)):
            return int(o)
        if isinstance(o, (np.floating,)):
            return float(o)
        if isinstance(o, (np.bool_,)):
            return bool(o)
        if isinstance(o, (set, frozenset)):
            return sorted(o, key=repr)
        if isinstance(o, tuple):
            return list(o)
        if isinstance(o, bytes):
            return o.hex()
        if callable(o):
            return f"<callable {getattr(o, '__name__', repr(o))}>"
        return repr(o)


def _dec_hook(d):
    if "__nd__" in d and "dtype" in d:
        a = np.array(d["__nd__"], dtype=d["dtype"])
        return a.reshape(d.get("shape", a.shape))
    return d


def dumps(o, **kw):
    return json.dumps(o, cls=_Enc, **kw)


def loads(s):
    return json.loads(s, object_hook=_dec_hook)


def jsonable(o):
    return json.loads(dumps(o))


def digest(key) -> bytes:
    if isinstance(key, np.ndarray):
        key = (key.shape, str(key.dtype), key.tobytes())
    return hashlib.blake2b(repr(key).encode(), digest_size=8).digest()


def short(o, limit=600):
    s = dumps(o)
    if len(s) > limit:
        s = s[:limit] + "...(truncated)"
    return s


# ----------------------------------------------------------------------------- explorer
@dataclass
class Explorer:
    name: str
    module: str                 # module holding fn (props.cXX)
    fn: str                     # name of the per-case function in that module
    cases: Iterable             # finite iterable of picklable, json-able cases (fully enumerated)
    rule: str                   # how cases are enumerated and what makes one non-trivial
    kind: str = "lattice"       # lattice | bfs | choices
    chunk: int = 32
    floor: int = 2              # minimal number of distinct non-trivial cases, below = broken check
    case_timeout: int = 300
    exhaustive: bool = True
    bound: str = ""             # textual statement of the completed bound
    determinism_probe: int = 3  # first cases executed twice
    require: dict = field(default_factory=dict)   # minimal values of summed stats (vacuity guards), e.g. {"kinks": 1}


class CaseTimeout(Exception):
    pass


def _alarm(signum, frame):
    raise CaseTimeout()


def _touches_repo(tb) -> bool:
    for fr in traceback.extract_tb(tb):
        if fr.filename.startswith(REPO_PKG):
            return True
    return False


def violation(kind, detail, **where):
    """Build a violation record.  `kind` is a short stable tag, `where` holds the structured fields the
    known-findings matcher looks at, `detail` is free text (observed vs expected)."""
    return {"kind": kind, "detail": detail if isinstance(detail, str) else short(detail), "where": jsonable(where)}


def run_one(module, fn, case, timeout):
    """Execute one case under a timeout.  Returns the result dict (always with a 'v' list)."""
    f = getattr(importlib.import_module(module), fn)
    old = signal.signal(signal.SIGALRM, _alarm)
    signal.alarm(timeout)
    # own the process-global generators (what random_state=None falls back to): a case replays identically whatever ran before it
    import random as _random
    import zlib as _zlib
    import numpy as _np
    _s = (_zlib.crc32(repr(case).encode()) ^ (int(os.environ.get("VERIF_SEED", "0") or 0) * 2654435761)) & 0xFFFFFFFF
    _np.random.seed(_s)
    _random.seed(_s)
    try:
        res = f(case) or {}
    except CaseTimeout:
        res = {"v": [violation("timeout", f"case did not finish within {timeout}s (non-termination?)")]}
    except Exception as e:  # noqa
        et, ev, tb = sys.exc_info()
        text = "".join(traceback.format_exception(et, ev, tb))[-1500:]
        if _touches_repo(tb):
            res = {"v": [violation("crash", text, exc=type(e).__name__)]}
        else:
            res = {"harness_error": text}
    finally:
        signal.alarm(0)
        signal.signal(signal.SIGALRM, old)
    res.setdefault("v", [])
    return res


def _work(args):
    module, fn, timeout, cases = args
    agg = {"n": 0, "nt": set(), "out": set(), "stats": {}, "v": [], "samples": [], "err": []}
    for case in cases:
        res = run_one(module, fn, case, timeout)
        agg["n"] += 1
        if "harness_error" in res:
            agg["err"].append((short(case, 300), res["harness_error"]))
            continue
        for k in res.get("nt", ()):
            agg["nt"].add(digest(k))
        for k in res.get("out", ()):
            agg["out"].add(digest(k))
        for k, val in res.get("stats", {}).items():
            agg["stats"][k] = agg["stats"].get(k, 0) + int(val)
        for v in res["v"]:
            if len(agg["v"]) < 40:
                v = dict(v)
                v["case"] = case
                agg["v"].append(v)
            agg["stats"]["violations_total"] = agg["stats"].get("violations_total", 0) + 1
        if not agg["samples"] and res.get("sample") is not None:
            agg["samples"].append(res["sample"])
    return agg


def _chunks(it, n):
    it = iter(it)
    while True:
        c = list(itertools.islice(it, n))
        if not c:
            return
        yield c


_POOL = None


def pool():
    global _POOL
    if _POOL is None:
        ctx = mp.get_context("fork")
        _POOL = ctx.Pool(NPROC)
    return _POOL


def close_pool():
    global _POOL
    if _POOL is not None:
        _POOL.terminate()
        _POOL = None


def _strip(res):
    return dumps({k: res.get(k) for k in ("v", "nt", "out", "stats")}, sort_keys=True)


def explore(ex: Explorer, log=print):
    """Run one explorer to completion; returns an aggregate dict."""
    t0 = time.time()
    cases = iter(ex.cases)
    head = list(itertools.islice(cases, ex.determinism_probe))
    # determinism self-check: same case twice in this process must give identical observations
    nondet = []
    for c in head:
        a = run_one(ex.module, ex.fn, c, ex.case_timeout)
        b = run_one(ex.module, ex.fn, c, ex.case_timeout)
        if "harness_error" in a or "harness_error" in b:
            continue
        if _strip(a) != _strip(b):
            nondet.append(short(c, 300))
    agg = {"n": 0, "nt": set(), "out": set(), "stats": {}, "v": [], "samples": [], "err": [], "nondet": nondet}
    jobs = ((ex.module, ex.fn, ex.case_timeout, ch) for ch in _chunks(itertools.chain(head, cases), ex.chunk))
    if NPROC <= 1:
        results = map(_work, jobs)
    else:
        results = pool().imap_unordered(_work, jobs)
    for r in results:
        agg["n"] += r["n"]
        agg["nt"] |= r["nt"]
        agg["out"] |= r["out"]
        for k, val in r["stats"].items():
            agg["stats"][k] = agg["stats"].get(k, 0) + val
        agg["v"].extend(r["v"])
        if len(agg["samples"]) < 3:
            agg["samples"].extend(r["samples"][: 3 - len(agg["samples"])])
        agg["err"].extend(r["err"])
    agg["wall"] = time.time() - t0
    return agg


# ----------------------------------------------------------------------------- generic numeric helpers
def generic_values(rs, size, lo=-1.0, hi=1.0, min_gap=1e-3):
    """Seed-generic fill values: continuous draws passed through a genericity filter
    (pairwise distinct to min_gap, no zero).  Deterministic for a given RandomState."""
    size = int(np.prod(size)) if not np.isscalar(size) else int(size)
    out = []
    while len(out) < size:
        x = rs.uniform(lo, hi)
        if abs(x) < min_gap:
            continue
        if any(abs(x - y) < min_gap for y in out):
            continue
        out.append(x)
    return np.array(out)


def close(a, b, rtol=1e-9, atol=0.0):
    a = np.asarray(a, dtype=float)
    b = np.asarray(b, dtype=float)
    if a.shape != b.shape:
        return False
    with np.errstate(invalid="ignore"):
        return bool(np.all(np.abs(a - b) <= atol + rtol * np.maximum(1.0, np.abs(b))))
