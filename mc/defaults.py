"""
Documented defaults (DESIGN.md 10.6, round 10): the numpydoc "name: type, default=value" lines of a class or function are the specification of
what an omitted argument means.  `documented_defaults(obj)` reads them; a call relying on the defaults must behave exactly like the call that
passes the documented values explicitly.
"""
import ast
import inspect
import re


def documented_defaults(obj):
    doc = inspect.getdoc(obj) or ""
    out = {}
    for m in re.finditer(r"^\s*(\w+)\s*:\s*[^\n]*?default\s*=\s*([^\n:]+?)\s*:?\s*$", doc, flags=re.M):
        name, raw = m.group(1), m.group(2).strip().rstrip(".")
        try:
            out[name] = ast.literal_eval(raw)
            continue
        except Exception:  # noqa
            pass
        try:                                   # "default=10 The hierarchy coefficient ..." (description on the same line)
            out[name] = ast.literal_eval(raw.split()[0])
            continue
        except Exception:  # noqa
            out[name] = raw.strip("'\"") if re.fullmatch(r"['\"]?[\w\-]+['\"]?", raw) else None
            if raw in ("None",):
                out[name] = None
    try:
        params = inspect.signature(obj.__init__ if inspect.isclass(obj) else obj).parameters
        out = {k: v for k, v in out.items() if k in params}
    except Exception:  # noqa
        pass
    return out
