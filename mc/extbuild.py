"""
Rebuild policy for the compiled KAURI helper (DESIGN.md section 8).

Cython is not installed on this image, so gemclus/tree/_utils.pyx cannot be regenerated.  The checks
use the extension that is in the working tree.  If the generated C++ (``_utils.cpp``) is *newer*
than the shared object (somebody edited it) or the shared object is missing, the C++ is compiled
with g++ into a private cache under /verif/.build and pre-loaded as ``gemclus.tree._utils`` so the
run sees the current source.  If only the .pyx is newer a NOTE is printed (nothing can be done).
"""
import glob
import hashlib
import importlib.machinery
import importlib.util
import os
import subprocess
import sys
import sysconfig


def ensure_extension(repo):
    tree = os.path.join(repo, "gemclus", "tree")
    cpp = os.path.join(tree, "_utils.cpp")
    pyx = os.path.join(tree, "_utils.pyx")
    sos = glob.glob(os.path.join(tree, "_utils*.so"))
    so = sos[0] if sos else None
    if so and os.path.exists(pyx) and os.path.getmtime(pyx) > os.path.getmtime(so) + 1:
        if not (os.path.exists(cpp) and os.path.getmtime(cpp) >= os.path.getmtime(pyx)):
            print("NOTE: gemclus/tree/_utils.pyx is newer than the compiled extension; Cython is not installed on "
                  "this image, the binary in the working tree is what is checked")
    need = (so is None and os.path.exists(cpp)) or (so and os.path.exists(cpp) and os.path.getmtime(cpp) > os.path.getmtime(so) + 1)
    if not need:
        return None
    import numpy
    sha = hashlib.sha1(open(cpp, "rb").read()).hexdigest()[:16]
    outdir = os.path.join(os.path.dirname(os.path.dirname(os.path.abspath(__file__))), ".build", sha)
    out = os.path.join(outdir, "_utils" + sysconfig.get_config_var("EXT_SUFFIX"))
    if not os.path.exists(out):
        os.makedirs(outdir, exist_ok=True)
        cmd = ["g++", "-O2", "-shared", "-fPIC", "-w", "-I", sysconfig.get_paths()["include"], "-I", numpy.get_include(),
               cpp, "-o", out]
        r = subprocess.run(cmd, capture_output=True, text=True)
        if r.returncode != 0:
            print("BROKEN-CHECK: cannot compile gemclus/tree/_utils.cpp:", r.stderr[-500:])
            sys.exit(2)
    _install_finder(out)
    return out


class _Finder:
    def __init__(self, path):
        self.path = path

    def find_spec(self, fullname, path=None, target=None):
        if fullname != "gemclus.tree._utils":
            return None
        loader = importlib.machinery.ExtensionFileLoader(fullname, self.path)
        return importlib.util.spec_from_file_location(fullname, self.path, loader=loader)


def _install_finder(path):
    sys.meta_path.insert(0, _Finder(path))
