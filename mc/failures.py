"""
Legitimately failing / warning calls, used as *events* in front of the judged call (DESIGN.md 10.6, round 8): a call that is refused
(invalid data or hyperparameters, a missing precomputed matrix, an emptied dynamic selection) or that takes a documented fallback (with Python
warnings shown, silenced, or turned into errors) must not change what later valid calls compute - on the same object, on other objects, or
through process-global state.
"""
import contextlib
import io
import warnings

import numpy as np

from mc import models as M


@contextlib.contextmanager
def quiet(mode="ignore"):
    """mode: 'ignore' | 'error' | 'always' - the warning filter a caller may have installed."""
    with warnings.catch_warnings(), contextlib.redirect_stdout(io.StringIO()):
        warnings.simplefilter(mode)
        yield


def attempt(fn, mode="ignore"):
    """Runs fn() under the given warning filter; returns the exception (or None)."""
    try:
        with quiet(mode), np.errstate(all="ignore"):
            fn()
    except Exception as e:  # noqa
        return e
    return None


def failing_prelude(seed=0, modes=("error", "ignore")):
    """Throw-away objects of every family are driven into their refusal / fallback paths.  Nothing returned: only what these calls may leave
    behind in class attributes, module globals or library-wide configuration matters."""
    rs = np.random.RandomState(seed + 4242)
    X = rs.normal(size=(8, 3))
    Xnan = X.copy()
    Xnan[0, 0] = np.nan
    for mode in modes:
        for name in M.ESTIMATORS:
            kw = {} if name == "Kauri" else {"max_iter": 1}
            attempt(lambda: M.make(name, **kw).fit(Xnan), mode)                                   # non-finite data
            attempt(lambda: M.make(name, **kw).fit(X[:, 0]), mode)                                # one-dimensional data
            attempt(lambda: M.make(name, **kw).predict(X), mode)                                  # before fit
            if name == "Kauri":
                attempt(lambda: M.make(name, max_clusters=0).fit(X), mode)
                attempt(lambda: M.make(name, kernel="precomputed").fit(X), mode)                  # documented fallback / refusal
                attempt(lambda: M.make(name, kernel="chi2").fit(X), mode)                         # kernel that rejects negative data
                attempt(lambda: M.make(name, max_features=10).fit(X), mode)
            else:
                attempt(lambda: M.make(name, n_clusters=-1, **kw).fit(X), mode)
            if name in M.HAS_KERNEL and name != "Kauri":
                attempt(lambda: M.make(name, kernel="precomputed", **kw).fit(X), mode)
                attempt(lambda: M.make(name, kernel="rbf", kernel_params={"degree": 2, "gamma": 0.5}, **kw).fit(X), mode)
            if name in M.HAS_METRIC:
                attempt(lambda: M.make(name, metric="precomputed", **kw).fit(X), mode)
            if name in M.SPARSE:
                attempt(lambda: M.make(name, groups=[[0, 1], [1, 2]], **kw).path(X), mode)         # overlapping groups
                attempt(lambda: M.make(name, n_clusters=0, **kw).path(X), mode)
                attempt(lambda: M.make(name, alpha=0.0, **kw).path(X, alpha_multiplier=0.5, keep_threshold=3.0, min_features=0, max_patience=1), mode)
                attempt(lambda: M.make(name, alpha=0.3, **kw).path(X, min_features=7, max_patience=1), mode)
                attempt(lambda: M.make(name, **kw).path(Xnan), mode)
                if name != "SparseLinearMI":
                    attempt(lambda: M.make(name, alpha=500.0, dynamic=True, **kw).path(X, alpha_multiplier=3.0, min_features=1, max_patience=1), mode)
                    attempt(lambda: M.make(name, alpha=0.3, dynamic=True, kernel="precomputed", **kw).path(X, X @ X.T, max_patience=1)
                            if "MMD" in name else None, mode)
            if name == "Douglas":
                attempt(lambda: M.make(name, feature_mask=np.array([True, False]), **kw).fit(X), mode)
        try:
            from gemclus import add_mlcl_constraint
            from gemclus.data import draw_gmm
            attempt(lambda: add_mlcl_constraint(M.make("LinearModel"), [(0, 1), (1, 2)], [(0, 2)]), mode)
            attempt(lambda: draw_gmm(5, np.zeros((2, 2)), np.stack([np.eye(2), -np.eye(2)]), np.array([0.5, 0.5]), 0), mode)
            attempt(lambda: draw_gmm(5, np.zeros((2, 2)), np.stack([np.eye(2)] * 2), np.array([0.7, 0.7]), 0), mode)
        except Exception:  # noqa
            pass
