"""The 18 estimators of gemclus and small default configurations used by the explorers."""
import importlib

ESTIMATORS = {
    "LinearModel": "gemclus.linear", "LinearMMD": "gemclus.linear", "LinearWasserstein": "gemclus.linear",
    "RIM": "gemclus.linear", "KernelRIM": "gemclus.linear",
    "MLPModel": "gemclus.mlp", "MLPMMD": "gemclus.mlp", "MLPWasserstein": "gemclus.mlp",
    "SparseLinearModel": "gemclus.sparse", "SparseLinearMMD": "gemclus.sparse", "SparseLinearMI": "gemclus.sparse",
    "SparseMLPModel": "gemclus.sparse", "SparseMLPMMD": "gemclus.sparse",
    "CategoricalModel": "gemclus.nonparametric", "CategoricalMMD": "gemclus.nonparametric",
    "CategoricalWasserstein": "gemclus.nonparametric",
    "Kauri": "gemclus.tree", "Douglas": "gemclus.tree",
}
GRADIENT = [e for e in ESTIMATORS if e != "Kauri"]
GENERIC_GEMINI = ["LinearModel", "MLPModel", "SparseLinearModel", "SparseMLPModel", "CategoricalModel", "Douglas"]
SPARSE = ["SparseLinearModel", "SparseLinearMMD", "SparseLinearMI", "SparseMLPModel", "SparseMLPMMD"]
HAS_HIDDEN = ["MLPModel", "MLPMMD", "MLPWasserstein", "SparseMLPModel", "SparseMLPMMD"]
NONPARAMETRIC = ["CategoricalModel", "CategoricalMMD", "CategoricalWasserstein"]
INDUCTIVE = [e for e in ESTIMATORS if e not in NONPARAMETRIC]
BATCHED = [e for e in GRADIENT if e not in NONPARAMETRIC]
HAS_KERNEL = ["LinearMMD", "MLPMMD", "SparseLinearMMD", "SparseMLPMMD", "CategoricalMMD", "Kauri"]
HAS_METRIC = ["LinearWasserstein", "MLPWasserstein", "CategoricalWasserstein"]
ALL_GEMINIS = ["mmd_ova", "mmd_ovo", "wasserstein_ova", "wasserstein_ovo", "kl_ova", "kl_ovo", "mi", "tv_ova", "tv_ovo",
               "hellinger_ova", "hellinger_ovo", "chi2_ova", "chi2_ovo"]


def cls(name):
    return getattr(importlib.import_module(ESTIMATORS[name]), name)


def make(name, **kw):
    """Small-but-real configuration: few clusters, few hidden units, few epochs."""
    base = {}
    if name == "Kauri":
        base = dict(max_clusters=3, random_state=0)
    else:
        base = dict(n_clusters=3, max_iter=3, learning_rate=0.1, random_state=0)
        if name in HAS_HIDDEN:
            base["n_hidden_dim"] = 4          # differs from the default n_clusters=3 and from the small d used: no accidental square shapes
        if name == "Douglas":
            base["n_cuts"] = 1
    base.update(kw)
    route = base.pop("_route", "ctor")
    if route == "ctor":
        return cls(name)(**base)
    # scikit-learn protocol routes: every hyperparameter arrives through set_params on an estimator built with the library defaults
    # (what clone().set_params() and the model-selection tools do); "used_set_params" first uses the default estimator once
    m = cls(name)()
    if route == "used_set_params":
        import warnings
        import numpy as np
        with warnings.catch_warnings():
            warnings.simplefilter("ignore")
            try:
                m.set_params(max_iter=1) if "max_iter" in m.get_params() else None
                m.fit(np.random.RandomState(5).normal(size=(9, 2)))
            except Exception:  # noqa
                pass
    m.set_params(**base)
    return m
