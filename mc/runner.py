"""
./check <ID> [--tier quick|thorough] [--replay file] [--only explorer]

Runs the explorers of props/<id>.py against the gemclus package of /repo's *current working tree*,
writes evidence/<ID>.json, one replay file per reported violation, and prints
    VIOLATION property=<ID> replay=<path>      (exit 1)
    KNOWN-FINDING: property=<ID> <what fails>  (listed in known_findings.json, not counted)
Exit 2 means the check itself is broken (vacuous exploration, nondeterminism, harness error).
"""
import argparse
import hashlib
import importlib
import json
import os
import subprocess
import sys
import time
import warnings

HERE = os.path.dirname(os.path.abspath(__file__))
VERIF = os.path.dirname(HERE)
REPO = os.environ.get("VERIF_REPO", "/repo")
OUT = os.environ.get("VERIF_OUT") or VERIF     # development runs against scratch trees may write evidence / replays elsewhere
sys.path.insert(0, VERIF)
sys.path.insert(0, REPO)          # gemclus must come from the working tree under test
sys.dont_write_bytecode = True
warnings.filterwarnings("ignore")

from mc import core  # noqa: E402
from mc import extbuild  # noqa: E402


LEVELS = {  # level claimed per property (also in MANIFEST.json)
    "C07": "model_checking", "C08": "model_checking", "C10": "model_checking", "C12": "model_checking",
    "C14": "model_checking", "C20": "model_checking",
}


def load_known():
    p = os.path.join(VERIF, "known_findings.json")
    if not os.path.exists(p):
        return []
    return json.load(open(p)).get("entries", [])


def _get(rec, path):
    cur = rec
    for part in path.split("."):
        if isinstance(cur, dict) and part in cur:
            cur = cur[part]
        else:
            return None
    return cur


def _match_value(spec, val):
    if isinstance(spec, dict):
        if "in" in spec:
            return val in spec["in"]
        if "contains" in spec:
            return isinstance(val, (str, list)) and spec["contains"] in val
        if "lt" in spec:
            return val is not None and val < spec["lt"]
        if "ge" in spec:
            return val is not None and val >= spec["ge"]
        if "ne" in spec:
            return val != spec["ne"]
        return False
    return spec == val


def match_known(pid, rec, known):
    for e in known:
        if e.get("kind") != "finding" or e.get("property") != pid:
            continue
        m = e.get("match", {})
        if all(_match_value(spec, _get(rec, path)) for path, spec in m.items()):
            return e
    return None


def write_replay(pid, rec):
    d = os.path.join(OUT, "replays", pid)
    os.makedirs(d, exist_ok=True)
    body = core.dumps(rec, sort_keys=True, indent=1)
    sha = hashlib.sha1(body.encode()).hexdigest()[:12]
    p = os.path.join(d, sha + ".json")
    with open(p, "w") as f:
        f.write(body)
    return p


def validate_evidence(path):
    """Schema validation in the tooling venv (jsonschema is not installed in /venv)."""
    schema = "/root/.vp/EVIDENCE.schema.json"
    if not os.path.exists(schema):
        schema = os.path.join(VERIF, "schemas", "EVIDENCE.schema.json")
    vt = "/opt/veriftools/pyvenv/bin/python"
    if not (os.path.exists(schema) and os.path.exists(vt)):
        return True
    code = ("import json,sys,jsonschema;"
            "jsonschema.validate(json.load(open(sys.argv[1])), json.load(open(sys.argv[2])))")
    r = subprocess.run([vt, "-c", code, path, schema], capture_output=True, text=True)
    if r.returncode != 0:
        print("EVIDENCE-INVALID:", r.stderr[-800:])
        return False
    return True


def main():
    ap = argparse.ArgumentParser()
    ap.add_argument("id")
    ap.add_argument("--tier", default=os.environ.get("VERIF_TIER", "quick"), choices=["quick", "thorough"])
    ap.add_argument("--replay")
    ap.add_argument("--summary", action="store_true", help="print a table of violation classes (debugging aid)")
    ap.add_argument("--only", help="run only the explorers whose name contains this string (no evidence written)")
    a = ap.parse_args()
    pid = a.id.upper()
    seed = int(os.environ.get("VERIF_SEED", "0") or 0)
    t0 = time.time()

    extbuild.ensure_extension(REPO)
    import gemclus  # noqa
    if not os.path.abspath(gemclus.__file__).startswith(os.path.abspath(REPO)):
        print(f"BROKEN-CHECK: gemclus imported from {gemclus.__file__}, not from {REPO}")
        return 2
    mod = importlib.import_module(f"props.{pid.lower()}")
    known = load_known()

    if a.replay:
        rec = core.loads(open(a.replay).read())
        exs = {e.name: e for e in mod.explorers(rec.get("tier", "quick"), rec.get("seed", 0))}
        ex = exs[rec["explorer"]]
        res = core.run_one(ex.module, ex.fn, rec["case"], ex.case_timeout)
        if "harness_error" in res:
            print("HARNESS-ERROR", res["harness_error"])
            return 2
        bad = 0
        for v in res["v"]:
            v = dict(v, explorer=ex.name, case=rec["case"])
            k = match_known(pid, v, known)
            if k:
                print(f"KNOWN-FINDING: property={pid} {k['id']} {k['what']}")
            else:
                bad += 1
                print(f"VIOLATION property={pid} replay={a.replay}")
                print("  kind:", v["kind"], "|", v["detail"][:600])
        if not res["v"]:
            print(f"replay: no violation reproduced for property={pid}")
        return 1 if bad else 0

    explorers = mod.explorers(a.tier, seed)
    if a.only:
        explorers = [e for e in explorers if a.only in e.name]
    parts = {}
    violations, known_hits, broken = [], {}, []
    tot = {"n": 0, "nt": 0, "out": 0, "states": 0, "transitions": 0, "traces": 0}
    samples = []
    for ex in explorers:
        agg = core.explore(ex)
        st = agg["stats"]
        # nt_distinct: non-trivial cases counted inside a shard whose members are distinct by construction
        n_nt = len(agg["nt"]) + st.get("nt_distinct", 0)
        n_out = len(agg["out"])
        part = {
            "kind": ex.kind, "evaluations": max(agg["n"], st.get("evals", 0)), "distinct_nontrivial": n_nt,
            "distinct_outcomes": n_out, "rule": ex.rule, "bound": ex.bound,
            "exhaustive": ex.exhaustive, "wall_s": round(agg["wall"], 2),
            "stats": {k: v for k, v in sorted(st.items())},
        }
        parts[ex.name] = part
        tot["n"] += max(agg["n"], st.get("evals", 0))
        tot["nt"] += n_nt
        tot["out"] += n_out
        tot["states"] += st.get("states", 0)
        tot["transitions"] += st.get("transitions", 0)
        tot["traces"] += st.get("traces", 0)
        for s in agg["samples"][:2]:
            samples.append({"explorer": ex.name, "case": core.jsonable(s)})
        if agg["err"]:
            broken.append(f"{ex.name}: {len(agg['err'])} harness errors, first: {agg['err'][0][0]} :: {agg['err'][0][1][-700:]}")
        if agg["nondet"]:
            broken.append(f"{ex.name}: nondeterministic observations on {agg['nondet'][:1]}")
        if n_nt < ex.floor:
            broken.append(f"{ex.name}: only {n_nt} distinct non-trivial cases (floor {ex.floor}) - vacuous")
        for key, need in ex.require.items():
            if st.get(key, 0) < need:
                broken.append(f"{ex.name}: stat {key}={st.get(key, 0)} below the required {need} - vacuous")
        for v in agg["v"]:
            v = dict(v, explorer=ex.name, property=pid, tier=a.tier, seed=seed)
            k = match_known(pid, v, known)
            if k:
                known_hits.setdefault(k["id"], [k, 0])[1] += 1
            else:
                violations.append(v)
        print(f"[{pid}] {ex.name}: cases={agg['n']} nontrivial={n_nt} outcomes={n_out} "
              f"stats={dict(sorted(st.items()))} violations={st.get('violations_total', 0)} {agg['wall']:.1f}s", flush=True)
    core.close_pool()

    for kid, (k, cnt) in sorted(known_hits.items()):
        print(f"KNOWN-FINDING: property={pid} {kid} {k['what']} [{cnt} matching cases]")

    # one replay per (explorer, kind, where) class, at most 12 files per run
    seen, shown = set(), 0
    for v in violations:
        cls = (v["explorer"], v["kind"], json.dumps(v.get("where"), sort_keys=True)[:200])
        if cls in seen and shown >= 3:
            continue
        seen.add(cls)
        if shown >= 12:
            break
        p = write_replay(pid, v)
        shown += 1
        print(f"VIOLATION property={pid} replay={p}")
        print(f"  explorer={v['explorer']} kind={v['kind']} where={json.dumps(v.get('where'))[:300]}")
        print(f"  {v['detail'][:500]}")
    if a.summary:
        import collections
        cnt = collections.Counter()
        for v in violations:
            w = {k: x for k, x in (v.get("where") or {}).items() if not isinstance(x, (list, dict))}
            cnt[(v["explorer"], v["kind"], json.dumps(w, sort_keys=True) if os.environ.get("VERIF_SUMMARY_FULL") else "")] += 1
        for (e, k, w), c in sorted(cnt.items(), key=lambda t: -t[1]):
            print(f"SUMMARY {c:6d} {e} {k} {w}")
        firsts = {}
        for v in violations:
            firsts.setdefault((v["explorer"], v["kind"]), v)
        for (e, k), v in firsts.items():
            print(f"EXAMPLE {e} {k} case={core.short(v.get('case'), 300)}\n        {v['detail'][-700:]}")
    if violations:
        print(f"[{pid}] {len(violations)} violating cases recorded ({shown} replay files written)")

    level = getattr(mod, "LEVEL", LEVELS.get(pid, "exploration"))
    cov = {
        "evaluations": tot["n"], "distinct_nontrivial": tot["nt"], "distinct_outcomes": tot["out"],
        "rule": " || ".join(f"{n}: {p['rule']}" for n, p in parts.items()),
        "samples": samples[:8] or [{"note": "no sample produced"}],
        "exhaustive": all(p["exhaustive"] for p in parts.values()) if parts else False,
        "parts": parts,
        "known_findings_matched": {kid: cnt for kid, (k, cnt) in known_hits.items()},
    }
    if level == "model_checking":
        cov["states"] = tot["states"]
        cov["transitions"] = tot["transitions"]
        cov["traces_validated_against_impl"] = tot["traces"]
        cov["explanation"] = ("states/transitions are those of explicit-state or stateless exploration run directly on the "
                              "real implementation; every explored trace is an execution of the implementation, so "
                              "traces_validated_against_impl counts executions compared with the reference model")
    ev = {
        "property_id": pid, "tier": a.tier, "seed": seed, "level": level, "coverage": cov,
        "assumptions": getattr(mod, "ASSUMPTIONS", []),
        "wall_s": round(time.time() - t0, 2), "violations": len(violations),
    }
    if not a.only:
        os.makedirs(os.path.join(OUT, "evidence"), exist_ok=True)
        evp = os.path.join(OUT, "evidence", f"{pid}.json")
        with open(evp, "w") as f:
            f.write(core.dumps(ev, indent=1))
        if not validate_evidence(evp):
            broken.append("evidence file does not validate")
    for b in broken:
        print(f"BROKEN-CHECK: property={pid} {b}")
    print(f"[{pid}] tier={a.tier} seed={seed} evaluations={tot['n']} nontrivial={tot['nt']} "
          f"violations={len(violations)} known={sum(c for _, c in known_hits.values())} wall={time.time() - t0:.1f}s")
    if violations:
        return 1
    if broken:
        return 2
    return 0


if __name__ == "__main__":
    sys.exit(main())
