"""
In-process seams on the real implementation (DESIGN.md section 1).  Nothing in /repo is edited:

  optimiser step   - class attribute BaseOptimizer.update_params is wrapped (sees live weights + direction)
  batches          - instance attribute model._batchify is wrapped by BatchSpy (outermost, so it also sees what a
                     must-link/cannot-link decoration yields) and forwards `.indices`
  randomness       - gemclus' module-level check_random_state is replaced by a factory returning a
                     ScriptedRandomState (real generator, but `permutation` answers can be scripted)
"""
import contextlib

import numpy as np
from sklearn.neural_network import _stochastic_optimizers as _so


class ScriptedRandomState(np.random.RandomState):
    """A real RandomState whose `permutation` answers may be scripted (choice-point seam)."""

    def __init__(self, seed=0, perm_script=None):
        super().__init__(seed)
        self.perm_script = list(perm_script) if perm_script is not None else None
        self.perm_calls = 0
        self.perm_log = []

    def permutation(self, x):
        n = x if isinstance(x, (int, np.integer)) else len(x)
        if self.perm_script is not None and self.perm_calls < len(self.perm_script):
            p = np.array(self.perm_script[self.perm_calls], dtype=np.int64)
            assert sorted(p.tolist()) == list(range(n)), "scripted permutation has the wrong support"
        else:
            p = super().permutation(n)
        self.perm_calls += 1
        self.perm_log.append(p.tolist())
        return p


@contextlib.contextmanager
def scripted_rng(rs):
    """Every check_random_state(...) call made by gemclus' training code returns `rs`
    (instances are passed through unchanged by the real function, so batching keeps using it)."""
    import gemclus._base_gemini as bg
    import gemclus.sparse._base_sparse as bs
    real = bg.check_random_state

    def fake(seed):
        if isinstance(seed, np.random.RandomState):
            return seed
        if seed is None:
            return real(None)          # numpy's global generator, as the real function does: a lost random_state stays visible
        return rs
    bg.check_random_state, bs.check_random_state = fake, fake
    try:
        yield rs
    finally:
        bg.check_random_state, bs.check_random_state = real, real


class BatchSpy:
    """Wraps model._batchify; records each yielded (X_batch, affinity_batch) with the true row indices."""

    def __init__(self, model, on_batch=None):
        self.model = model
        self.orig = model._batchify
        self.log = []          # per call of _batchify (= per epoch): list of batches
        self.on_batch = on_batch
        self.current = None
        model._batchify = self

    @property
    def indices(self):
        return self.orig.indices

    def __call__(self, X, affinity_matrix=None, random_state=None):
        epoch = []
        self.log.append(epoch)
        for Xb, Ab in self.orig(X, affinity_matrix, random_state):
            idx = match_rows(Xb, X)
            rec = {"idx": idx, "X": np.array(Xb, copy=True), "A": None if Ab is None else np.array(Ab, copy=True),
                   "decl_indices": list(getattr(self.orig, "indices", [])) if hasattr(self.orig, "indices") else None,
                   "full_X": X, "full_A": affinity_matrix}
            epoch.append(rec)
            self.current = rec
            if self.on_batch:
                self.on_batch(rec)
            yield Xb, Ab

    def remove(self):
        self.model._batchify = self.orig


def match_rows(Xb, X):
    """Indices of the rows of X that the rows of Xb are (data sets used by the harness have distinct rows)."""
    Xb = np.asarray(Xb)
    X = np.asarray(X)
    out = []
    for r in Xb:
        hits = np.where((X == r).all(axis=1))[0]
        out.append(int(hits[0]) if len(hits) else -1)
    return out


@contextlib.contextmanager
def optimiser_spy(callback):
    """callback(optimiser, params, grads) is called before every real update_params; optional
    callback.after(optimiser, params) right after it."""
    real = _so.BaseOptimizer.update_params

    def spy(self, params, grads):
        callback(self, params, grads)
        out = real(self, params, grads)
        after = getattr(callback, "after", None)
        if after is not None:
            after(self, params)
        return out
    _so.BaseOptimizer.update_params = spy
    try:
        yield
    finally:
        _so.BaseOptimizer.update_params = real


def tiny_data(n, d, seed, scale=1.0, tag=True):
    """Seed-generic training data with pairwise distinct entries (hence distinct rows)."""
    rs = np.random.RandomState(30_000 + 101 * seed + 7 * n + d)
    while True:
        X = rs.normal(size=(n, d)) * scale
        flat = np.sort(X.reshape(-1))
        if n * d == 1 or np.min(np.diff(flat)) > 1e-3:
            return X
