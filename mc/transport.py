"""
Transport axis (DESIGN.md 10.6, round 9): scikit-learn's tooling never works on the object the user built - it clones it, gives it hyperparameters
with set_params, pickles it to worker processes (joblib / loky use cloudpickle), deep-copies it inside pipelines, and hands back pickled fitted
estimators.  A transported object is the same estimator / objective: every property that holds for the original holds for the copy.
"""
import copy
import pickle


def _cloudpickle():
    try:
        from joblib.externals import cloudpickle
        return cloudpickle
    except Exception:  # noqa
        return None


def roundtrip(obj, kind):
    """kind: 'pickle' | 'deepcopy' | 'cloudpickle' (what a joblib worker receives and sends back) | 'pickle_twice'."""
    if kind == "pickle":
        return pickle.loads(pickle.dumps(obj))
    if kind == "pickle_twice":
        return pickle.loads(pickle.dumps(pickle.loads(pickle.dumps(obj))))
    if kind == "deepcopy":
        return copy.deepcopy(obj)
    if kind == "cloudpickle":
        cp = _cloudpickle()
        return pickle.loads(cp.dumps(obj)) if cp is not None else pickle.loads(pickle.dumps(obj))
    raise ValueError(kind)


KINDS = ("pickle", "deepcopy", "cloudpickle")


def copies(obj, kinds=KINDS):
    """Yields (kind, copy or exception)."""
    for k in kinds:
        try:
            yield k, roundtrip(obj, k)
        except Exception as e:  # noqa
            yield k, e


def pick(case, kinds=KINDS):
    """Deterministic choice of one transport for a case (rotates over the menu with the case's text)."""
    import zlib
    return kinds[zlib.crc32(repr(case).encode()) % len(kinds)]
