"""
Reference model for GEMINI scores (C01, C11, C13): the textbook definition, written from the
documentation and independent of gemclus/gemini/*.py.

Given predictions P (n x K, rows on the simplex) the empirical model is
    p(y=k)      = pi_k = mean_i P[i,k]
    p(x_i|y=k)  = P[i,k] / (n pi_k)          (a distribution over the n atoms x_1..x_n)
    p(x_i)      = 1/n
and the GEMINI is  sum_k pi_k D(p(x|k) || p(x))               (one-vs-all)
              or   sum_{k,k'} pi_k pi_k' D(p(x|k) || p(x|k'))  (one-vs-one)
with D one of KL, TV, squared Hellinger, Pearson chi-square, kernel MMD, Wasserstein-1 (by an explicit
transport LP solved with scipy's HiGHS, independent of POT).  Only convention: the chi-square family
returns (chi2+1)/2.
"""
import numpy as np
from scipy.optimize import linprog

# name -> (distance, mode), typed by hand from the documentation of gemclus.gemini
REGISTRY = {
    "mmd_ova": ("mmd", "ova"), "mmd_ovo": ("mmd", "ovo"),
    "wasserstein_ova": ("wasserstein", "ova"), "wasserstein_ovo": ("wasserstein", "ovo"),
    "kl_ova": ("kl", "ova"), "kl_ovo": ("kl", "ovo"), "mi": ("kl", "ova"),
    "tv_ova": ("tv", "ova"), "tv_ovo": ("tv", "ovo"),
    "hellinger_ova": ("hellinger", "ova"), "hellinger_ovo": ("hellinger", "ovo"),
    "chi2_ova": ("chi2", "ova"), "chi2_ovo": ("chi2", "ovo"),
}
NEEDS_AFFINITY = {"mmd": "kernel", "wasserstein": "distance"}


def _kl(p, q, A):
    return float(np.sum(p * (np.log(p) - np.log(q))))


def _tv(p, q, A):
    return 0.5 * float(np.sum(np.abs(p - q)))


def _hel(p, q, A):
    return 1.0 - float(np.sum(np.sqrt(p * q)))


def _chi2(p, q, A):
    return float(np.sum((p - q) ** 2 / q))


def w1_lp(p, q, D):
    """Wasserstein-1 between atom weights p and q with ground cost D, by the transport LP.
    Returns (value, plan, slack): HiGHS works with feasibility tolerances, so the value is bracketed by
    an exactly feasible dual (c-transform of the LP duals: lower bound) and a repaired primal (upper bound);
    value is the mid point and slack the half width."""
    n, m = len(p), len(q)
    D = np.asarray(D, dtype=float)
    c = D.reshape(-1)
    A_eq = np.zeros((n + m - 1, n * m))
    b_eq = np.zeros(n + m - 1)
    for i in range(n):
        A_eq[i, i * m:(i + 1) * m] = 1.0
        b_eq[i] = p[i]
    for j in range(m - 1):            # last column constraint is implied (total masses agree)
        A_eq[n + j, j::m] = 1.0
        b_eq[n + j] = q[j]
    res = linprog(c, A_eq=A_eq, b_eq=b_eq, bounds=(0, None), method="highs",
                  options={"primal_feasibility_tolerance": 1e-10, "dual_feasibility_tolerance": 1e-10})
    if res.status != 0:
        raise RuntimeError(f"reference LP failed: {res.message}")
    T = res.x.reshape(n, m)
    # upper bound: clip the plan and charge the residual mass at the largest cost
    Tc = np.maximum(T, 0.0)
    resid = np.abs(p - Tc.sum(1)).sum() + np.abs(q - Tc.sum(0)).sum()
    upper = float((Tc * D).sum() + 2.0 * resid * np.abs(D).max())
    # lower bound: exactly feasible dual from the LP duals (c-transform), weak duality
    y = np.asarray(res.eqlin.marginals, dtype=float)
    u = y[:n]
    v = (D - u[:, None]).min(0)
    lower = float(p @ u + q @ v)
    if lower > upper:                  # rounding only
        lower, upper = upper, lower
    return 0.5 * (lower + upper), T, 0.5 * (upper - lower)


class Line:
    """Ground metric |x_i - x_j| of samples on a line, given by their positions: Wasserstein-1 then has the closed form
    sum_i |F_p(x_(i)) - F_q(x_(i))| (x_(i+1) - x_(i)) - a reference that stays cheap for thousands of samples."""

    def __init__(self, x):
        self.x = np.asarray(x, dtype=float).reshape(-1)


def _w1(p, q, A):
    if isinstance(A, Line):
        o = np.argsort(A.x, kind="stable")
        F = np.cumsum((p - q)[o])[:-1]
        dx = np.diff(A.x[o])
        return float(np.sum(np.abs(F) * dx)), float(64 * 2.3e-16 * len(p) * (np.abs(p).sum() + np.abs(q).sum()) * dx.sum())
    val, _, slack = w1_lp(p, q, A)
    return val, slack


def _mmd(p, q, A):
    d = p - q
    val = float(np.sqrt(max(float(d @ A @ d), 0.0)))
    # An implementation that expands (p-q)'A(p-q) into p'Ap + q'Aq - 2p'Aq loses absolute accuracy
    # e ~ eps * (|p|+|q|)'|A|(|p|+|q|) under the square root; allow min(sqrt(e), e/(2 val)).
    s = np.abs(p) + np.abs(q)
    e = 64 * 2.3e-16 * max(1.0, len(p) / 64.0) * float(s @ np.abs(A) @ s)      # accumulated rounding grows with the number of terms
    slack = np.sqrt(e) if val == 0 else min(np.sqrt(e), e / (2 * val))
    return val, float(slack)


DIST = {"kl": _kl, "tv": _tv, "hellinger": _hel, "chi2": _chi2, "mmd": _mmd, "wasserstein": _w1}


def conditionals(P):
    P = np.asarray(P, dtype=float)
    n = P.shape[0]
    pi = P.mean(0)
    cond = P / (n * pi)            # column k = p(x_.|y=k)
    return pi, cond, np.full(n, 1.0 / n)


def _pair(D, p, q, A):
    r = D(p, q, A)
    return r if isinstance(r, tuple) else (r, 0.0)


def ref_score_slack(P, A, dist, mode):
    """(reference score, slack).  slack >= 0 is the uncertainty of the reference itself (LP bracket) or
    the unavoidable floating-point noise of a square root near zero (MMD); 0 for the f-divergences."""
    pi, cond, px = conditionals(P)
    K = P.shape[1]
    D = DIST[dist]
    val, slack = 0.0, 0.0
    if mode == "ova":
        for k in range(K):
            d, s = _pair(D, cond[:, k], px, A)
            val += pi[k] * d
            slack += pi[k] * s
    else:
        for a in range(K):
            for b in range(K):
                if a == b:
                    continue      # D(p,p)=0 for every distance here
                d, s = _pair(D, cond[:, a], cond[:, b], A)
                val += pi[a] * pi[b] * d
                slack += pi[a] * pi[b] * s
    if dist == "chi2":
        val = (val + 1.0) / 2.0
    return float(val), float(slack)


def ref_score(P, A, dist, mode):
    return ref_score_slack(P, A, dist, mode)[0]


def ref_by_name(P, A, name):
    dist, mode = REGISTRY[name]
    return ref_score(P, A, dist, mode)


def lower_bound(dist):
    return 0.5 if dist == "chi2" else 0.0


def tol(dist, ref, slack=0.0, scale=None):
    """Comparison tolerance of DESIGN.md 3.2: relative 1e-9 plus the reference's own slack.  For the geometric GEMINIs `scale` is the
    natural magnitude of the score (sqrt of the kernel magnitude for MMD, the distance magnitude for Wasserstein) so that affinities of
    magnitude 1e-10 are not compared with an absolute 1e-9."""
    unit = 1.0 if scale is None else min(1.0, scale)
    return 1e-9 * max(unit, abs(ref)) + slack


# ------------------------------------------------------------------ menus of prediction rows
def compositions(q, K):
    """All positive compositions of q into K parts."""
    if K == 1:
        yield (q,)
        return
    for first in range(1, q - K + 2):
        for rest in compositions(q - first, K - 1):
            yield (first,) + rest


def interior_rows(K, q=None):
    """Interior lattice {c/q}, near one-hot rows (delta 1e-3, 1e-6) per vertex, one near-uniform row."""
    q = q or K + 2
    rows = [np.array(c, dtype=float) / q for c in compositions(q, K)]
    for k in range(K):
        for delta in (1e-3, 1e-6):
            r = np.full(K, delta / (K - 1))
            r[k] = 1.0 - delta
            rows.append(r)
    u = np.full(K, 1.0 / K)
    u[0] += 1e-4
    u[-1] -= 1e-4
    rows.append(u)
    return rows


def closed_rows(K, q):
    """Closed-simplex lattice of denominator q (one-hot rows included)."""
    def comps(q, K):
        if K == 1:
            yield (q,)
            return
        for first in range(0, q + 1):
            for rest in comps(q - first, K - 1):
                yield (first,) + rest
    return [np.array(c, dtype=float) / q for c in comps(q, K)]
