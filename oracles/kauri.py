"""
Reference model for KAURI (C08, C09, C19): brute force on the definition.

objective(labels, K)      = sum_k sigma(C_k x C_k)/|C_k|
admissible alternatives   = (explorable leaf, candidate feature, threshold = observed value of the feature inside the
                            leaf with >= min_leaf samples on both sides of `x <= t`, assignment), assignment one of
    star         one child founds a new cluster, the other stays             (needs n_clusters < K_max)
    double_star  both children found new clusters                            (needs n_clusters < K_max-1, leaf != its whole cluster)
    switch       one child joins another existing cluster, the other stays   (needs n_clusters >= 2)
    realloc      the children join two different other clusters              (needs n_clusters >= 3, leaf != its whole cluster)
gain(alternative)         = objective(after) - objective(before), recomputed from labels.
"""
import itertools

import numpy as np


def objective(labels, K):
    labels = np.asarray(labels)
    s = 0.0
    for k in np.unique(labels):
        idx = np.where(labels == k)[0]
        s += K[np.ix_(idx, idx)].sum() / len(idx)
    return float(s)


def labels_of(Y, Z, n_leaves):
    """labels[i] = cluster of the leaf holding sample i."""
    Zs = Z[:n_leaves]
    leaf_of = Zs.argmax(0)
    cl_of_leaf = Y[:, :n_leaves].argmax(0)
    return cl_of_leaf[leaf_of], leaf_of


def thresholds(X, members, feature, min_leaf):
    """(threshold, left members, right members) for every admissible cut of a leaf along a feature."""
    vals = X[members, feature]
    out = []
    for t in np.unique(vals)[:-1]:
        left = members[vals <= t]
        right = members[vals > t]
        if len(left) >= min_leaf and len(right) >= min_leaf:
            out.append((float(t), left, right))
    return out


def assignments(k, n_clusters, K_max, leaf_is_whole_cluster):
    """(family, left_target, right_target) for a leaf of cluster k."""
    out = []
    if n_clusters < K_max:
        out.append(("star", n_clusters, k))
        out.append(("star", k, n_clusters))
    if n_clusters < K_max - 1 and not leaf_is_whole_cluster:
        out.append(("double_star", n_clusters, n_clusters + 1))
    if n_clusters >= 2:
        for kp in range(n_clusters):
            if kp != k:
                out.append(("switch", kp, k))
                out.append(("switch", k, kp))
    if n_clusters >= 3 and not leaf_is_whole_cluster:
        for a, b in itertools.permutations([c for c in range(n_clusters) if c != k], 2):
            out.append(("realloc", a, b))
    return out


def alternatives(K, X, leaves, Y, Z, n_clusters, K_max, n_leaves, min_leaf, features):
    """All admissible alternatives with their actual gains.  Yields dicts."""
    labels, leaf_of = labels_of(Y, Z, n_leaves)
    base = objective(labels, K)
    sizes = np.bincount(labels, minlength=max(n_clusters, 1))
    for j in leaves:
        members = np.where(Z[j] == 1)[0]
        if len(members) < 2:
            continue
        k = int(Y[:, j].argmax())
        whole = len(members) == sizes[k]
        for f in features:
            for t, left, right in thresholds(X, members, int(f), min_leaf):
                for fam, lt, rt in assignments(k, n_clusters, K_max, whole):
                    new = labels.copy()
                    new[left] = lt
                    new[right] = rt
                    yield {"leaf": int(j), "feature": int(f), "threshold": t, "family": fam, "left_target": int(lt),
                           "right_target": int(rt), "gain": objective(new, K) - base, "n_left": len(left), "n_right": len(right)}


def classify(split_left, split_right, k, n_clusters):
    new_l, new_r = split_left >= n_clusters, split_right >= n_clusters
    if new_l and new_r:
        return "double_star"
    if new_l or new_r:
        return "star"
    if split_left == k or split_right == k:
        return "switch"
    return "realloc"


def actual_gain(K, X, Y, Z, n_leaves, split):
    """Objective increase obtained by applying a returned split (leaf, feature, threshold, targets)."""
    labels, _ = labels_of(Y, Z, n_leaves)
    members = np.where(Z[split["leaf"]] == 1)[0]
    left = members[X[members, split["feature"]] <= split["threshold"]]
    right = members[X[members, split["feature"]] > split["threshold"]]
    new = labels.copy()
    new[left] = split["left_target"]
    new[right] = split["right_target"]
    return objective(new, K) - objective(labels, K), len(left), len(right)


def apply_split(Y, Z, n_leaves, n_clusters, X, alt):
    """State update of the KAURI loop: the left child keeps the leaf id, the right child becomes leaf n_leaves."""
    Y, Z = Y.copy(), Z.copy()
    j = alt["leaf"]
    members = np.where(Z[j] == 1)[0]
    right = members[X[members, alt["feature"]] > alt["threshold"]]
    Z[j, right] = 0
    Z[n_leaves, right] = 1
    k = Y[:, j].argmax()
    Y[k, j] = 0
    Y[alt["left_target"], j] = 1
    Y[alt["right_target"], n_leaves] = 1
    new_clusters = n_clusters + int(alt["left_target"] >= n_clusters) + int(alt["right_target"] >= n_clusters)
    return Y, Z, n_leaves + 1, new_clusters


# ------------------------------------------------------------------ fitted tree reference (C09/C19)
def route(tree, x):
    """Reference routing of one point through the tree arrays; returns (leaf node id, cluster)."""
    node = 0
    while tree.children_left[node] != -1:
        if x[tree.features[node]] <= tree.thresholds[node]:
            node = tree.children_left[node]
        else:
            node = tree.children_right[node]
    return node, tree.target[node]


def tree_leaves(tree):
    return [i for i in range(tree.n_nodes) if tree.children_left[i] == -1]
