"""Reference models for must-link / cannot-link constraints (C14, used by C03 for decorated models)."""
import numpy as np


def consistent(must_link, cannot_link):
    """True iff no pair (i,i) and no cannot-link pair inside one connected component of the must-link graph.
    Union-find over arbitrary hashable sample indices."""
    parent = {}

    def find(x):
        parent.setdefault(x, x)
        while parent[x] != x:
            parent[x] = parent[parent[x]]
            x = parent[x]
        return x

    for i, j in list(must_link) + list(cannot_link):
        if i == j:
            return False
    for i, j in must_link:
        ri, rj = find(i), find(j)
        if ri != rj:
            parent[ri] = rj
    for i, j in cannot_link:
        if i in parent and j in parent and find(i) == find(j):
            return False
    return True


def constraint_term(P, idx, must_link, cannot_link, factor):
    """Extra (ascent) gradient on the prediction rows of a batch whose rows are the samples `idx`:
    +factor (p_i - p_j) on row i for each cannot-linked pair present in the batch (pushes apart),
    -factor (p_i - p_j) for each must-linked pair (pulls together); other rows untouched."""
    P = np.asarray(P, dtype=float)
    T = np.zeros_like(P)
    pos = {s: a for a, s in enumerate(idx)}
    for sign, pairs in ((+1.0, cannot_link), (-1.0, must_link)):
        for i, j in pairs:
            if i in pos and j in pos:
                a, b = pos[i], pos[j]
                T[a] += sign * factor * (P[a] - P[b])
                T[b] += sign * factor * (P[b] - P[a])
    return T
