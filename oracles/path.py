"""
Reference model of the regularisation-path contract (C07), evaluated on *observations* of a run:

  obs = {"d": number of features,
         "init": {"score", "n_sel", "weights"}            state right after the initial unpenalised fit
         "steps": [{"alpha", "n_sel", "score", "penalty", "weights", "epochs", "nan"} ...]   state at the END of each step
        }
The observation is taken by a spy on gemclus.sparse._base_sparse.compute_val_score (steps are delimited by the value of
clf.alpha), so the reference never looks at how a step trains - only at what the contract says about its outcome.
"""
import math

import numpy as np


def effective_args(cfg):
    """Documented replacement of out-of-range arguments; returns (mult, keep, min_features, expected warning tags)."""
    warn = []
    if cfg["alpha"] <= 0:
        warn.append("alpha")
    mult, keep, minf = cfg["alpha_multiplier"], cfg["keep_threshold"], cfg["min_features"]
    if mult <= 1:
        mult = 1.05
        warn.append("multiplier")
    if keep < 0 or keep > 1:
        keep = 0.9
        warn.append("threshold")
    if minf <= 0:
        minf = 2
        warn.append("min_features<=0")
    elif minf >= cfg["d"]:
        warn.append("min_features>=d")
    return mult, keep, minf, warn


def _same(a, b):
    return all(np.array_equal(x, y) for x, y in zip(a, b)) and len(a) == len(b)


def check_contract(cfg, obs, ret, final_weights, warning_texts):
    """Returns a list of (kind, detail) contract breaches."""
    out = []
    mult, keep, minf, expected_warn = effective_args(cfg)
    best_weights, geminis, penalties, alphas, n_features = ret
    T = len(alphas)
    if not (len(geminis) == len(penalties) == len(n_features) == T):
        out.append(("histories_of_unequal_length", {"lengths": [len(geminis), len(penalties), len(alphas), len(n_features)]}))
        return out
    steps = obs["steps"]
    done = [s for s in steps if not s["nan"]]
    aborted = any(s["nan"] for s in steps)
    if T != len(done):
        out.append(("history_length_differs_from_completed_steps", {"recorded": T, "completed_steps_observed": len(done), "aborted_on_nan": aborted}))
        return out
    if T:
        start = cfg["alpha"] if cfg["alpha"] > 0 else 1e-2        # alpha 0 cannot grow: replaced by the default with a warning
        if alphas[0] != start:
            out.append(("alphas_do_not_start_at_model_alpha", {"alphas0": alphas[0], "model_alpha": cfg["alpha"]}))
        for t in range(T - 1):
            if alphas[t + 1] != alphas[t] * mult:
                out.append(("alphas_do_not_grow_by_multiplier", {"t": t, "alphas": alphas[:t + 2], "multiplier": mult}))
                break
    for t, s in enumerate(done):
        if s["alpha"] != alphas[t]:
            out.append(("step_trained_with_other_alpha_than_recorded", {"t": t, "trained_with": s["alpha"], "recorded": alphas[t]}))
        if n_features[t] != s["n_sel"]:
            out.append(("recorded_feature_count_is_not_the_models", {"t": t, "recorded": n_features[t], "model": s["n_sel"]}))
        if not (penalties[t] == s["penalty"]):
            out.append(("recorded_penalty_is_not_the_models", {"t": t, "recorded": penalties[t], "model": s["penalty"]}))
        rsc = s.get("ref_score")
        if rsc is not None and not (abs(s["score"] - rsc) <= 1e-9 * max(1.0, abs(rsc)) + 1e-7) and not s["nan"]:
            out.append(("step_score_is_not_the_score_of_the_model_at_that_step", {"t": t, "used_by_the_path": s["score"], "model_score": rsc,
                                                                                  "selected_features": s["n_sel"]}))
        if not (geminis[t] == s["score"]):
            out.append(("recorded_score_is_not_the_step_score", {"t": t, "recorded": geminis[t], "step": s["score"]}))
    # stopping
    if not aborted:
        last_n = n_features[-1] if T else obs["init"]["n_sel"]
        if last_n > minf:
            out.append(("stopped_with_more_than_min_features", {"last": last_n, "min_features": minf}))
    pre = [obs["init"]["n_sel"]] + [s["n_sel"] for s in done[:-1]] if T else []
    for t, nsel in enumerate(pre):
        if nsel <= minf:
            out.append(("continued_although_min_features_reached", {"before_step": t, "n_selected": nsel, "min_features": minf}))
            break
    # best weights
    best = obs["init"]["score"]
    kept, kept_from = obs["init"]["weights"], "initial fit"
    for t, s in enumerate(done):
        if s["n_sel"] == obs["d"] and s["score"] >= best:
            best = s["score"]
        if s["score"] >= keep * best:
            kept, kept_from = s["weights"], f"step {t}"
    if not _same(best_weights, kept):
        out.append(("best_weights_are_not_those_of_the_last_step_within_threshold",
                    {"expected_from": kept_from, "best_score_all_features": best, "keep_threshold": keep,
                     "step_scores": [s["score"] for s in done], "step_n_sel": [s["n_sel"] for s in done]}))
    # final state
    if cfg["restore_best_weights"] and not cfg["dynamic"]:
        if not _same(final_weights, best_weights):
            out.append(("best_weights_not_restored", {}))
    elif cfg["dynamic"] and not cfg["y_given"] or not cfg["restore_best_weights"]:
        last = (steps[-1]["last_weights"] if steps else obs["init"]["weights"])
        if not _same(final_weights, last):
            out.append(("final_weights_are_not_those_of_the_last_epoch", {"restore": cfg["restore_best_weights"], "dynamic": cfg["dynamic"]}))
    # warnings for replaced arguments
    text = " || ".join(warning_texts)
    need = {"alpha": "initial alpha", "multiplier": "alpha multiplier", "threshold": "threshold to keep", "min_features<=0": "min_features to stop",
            "min_features>=d": "min_features param is greater"}
    for tag in expected_warn:
        if need[tag] not in text:
            out.append(("out_of_range_argument_replaced_without_warning", {"argument": tag, "warnings": warning_texts}))
    return out


def reference_val_score(clf, X, y, batch_size, gem):
    """The score the path contract speaks of: size-weighted mean over consecutive validation blocks of the GEMINI of the model's predictions on
    the block, with the block of the user's affinity when one is given, else the affinity of the block's samples - restricted to the currently
    selected features in dynamic mode (written down independently of compute_val_score)."""
    X = np.asarray(X)
    n, d = X.shape
    sel = np.arange(d)
    if getattr(clf, "dynamic", False) and y is None:
        sel = np.asarray(clf.get_selection())
    bs = n if batch_size is None else int(batch_size)
    total = 0.0
    try:
        for j in range(0, n, bs):
            Xb = X[j:j + bs]
            A = np.asarray(y)[j:j + bs][:, j:j + bs] if y is not None else gem.compute_affinity(Xb[:, sel])
            total += float(gem(clf.predict_proba(Xb), A)) * len(Xb)
    except Exception:  # noqa  (e.g. the empty dynamic selection of KF-C07-1: the implementation's own call has raised already)
        return None
    return total / n


def observe_path(model, X, y, path_kwargs, call_limit=4000):
    """Runs model.path(...) with a spy on compute_val_score; returns (ret, obs, warning texts)."""
    import warnings

    import gemclus.sparse._base_sparse as bs
    real = bs.compute_val_score
    calls = []
    from mc import seams
    bspy = seams.BatchSpy(model)

    class NonTermination(Exception):
        pass

    def spy(clf, Xa, ya, batch_size, gem):
        r = real(clf, Xa, ya, batch_size, gem)
        calls.append({"epochs_so_far": len(bspy.log), "alpha": clf.alpha, "score": r[0], "ref_score": reference_val_score(clf, Xa, ya, batch_size, gem),
                      "n_sel": int(clf._n_selected_features()),
                      "penalty": clf._group_lasso_penalty(), "weights": [w.copy() for w in clf._get_weights()]})
        if len(calls) > call_limit:
            raise NonTermination()
        return r
    bs.compute_val_score = spy
    nonterm = False
    ret = None
    try:
        with warnings.catch_warnings(record=True) as wlist:
            warnings.simplefilter("always")
            try:
                ret = model.path(X, y, **path_kwargs)
            except NonTermination:
                nonterm = True
    finally:
        bs.compute_val_score = real
        bspy.remove()
    texts = [str(w.message) for w in wlist]
    if nonterm or not calls:
        return ret, {"nonterminating": nonterm, "calls": len(calls)}, texts
    init = calls[0]
    steps = []
    cur = None
    prev = init
    for c in calls[1:]:
        # a validation call that directly follows another one (no training epoch in between) opens a new step
        if c["epochs_so_far"] == prev["epochs_so_far"]:
            cur = {"alpha": c["alpha"], "calls": []}
            steps.append(cur)
        if cur is None:
            cur = {"alpha": c["alpha"], "calls": []}
            steps.append(cur)
        cur["calls"].append(c)
        prev = c
    obs_steps = []
    for s in steps:
        last = s["calls"][-1]
        sc = last["score"]
        obs_steps.append({"alpha": s["alpha"], "n_sel": last["n_sel"], "score": sc, "ref_score": last.get("ref_score"), "penalty": last["penalty"],
                          "weights": last["weights"], "last_weights": last["weights"], "epochs": len(s["calls"]) - 1,
                          "nan": bool(isinstance(sc, float) and math.isnan(sc)) or bool(np.isnan(sc))})
    obs = {"d": np.asarray(X).shape[1], "init": {"score": init["score"], "n_sel": init["n_sel"], "weights": init["weights"]},
           "steps": obs_steps, "nonterminating": False, "calls": len(calls)}
    return ret, obs, texts
