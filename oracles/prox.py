"""
Reference models for the proximal operators (C05/C06).  Deliberately boring and independent of
gemclus/sparse/_prox_grad.py: no sorting, no cumulative sums.

group lasso:   argmin_z 0.5||z-w||^2 + a||z||_2  = (1 - a/||w||)_+ w          (closed form)
hierarchical:  min over (beta, theta) of 0.5||beta-v||^2+0.5||theta-u||^2+a||beta||_2
               s.t. |theta_j| <= M ||beta||_2.
  For a fixed r=||beta|| the best beta is r v/||v|| and the best theta_j is sign(u_j) min(|u_j|, M r), so the
  optimal value is min_{r>=0} f(r),  f(r)=0.5(r-||v||)^2 + a r + 0.5 sum_j (|u_j|-M r)_+^2   (convex,
  piecewise quadratic).  Its minimiser is the stationary point of the piece it lies in; that piece is
  described by *some* subset S={j: |u_j|>M r}.  The reference therefore evaluates the true f at the
  stationary point r_S=((||v||-a+M sum_S|u_j|)/(1+|S|M^2))_+ of EVERY subset S (2^h of them), at r=0 and
  at the breakpoints, and takes the minimum.  Every candidate is a value of the true f, so the minimum is
  exact without ever deciding which piece is the right one.
"""
import itertools
from fractions import Fraction

import numpy as np


def group_lasso_row(w, a):
    """w: 1-D array (a feature row, or a flattened group); returns (z, must_be_zero)."""
    w = np.asarray(w, dtype=float)
    sq = sum(Fraction(float(x)) ** 2 for x in w)
    must_zero = sq <= Fraction(float(a)) ** 2      # exact rational comparison ||w|| <= a
    nrm = float(np.sqrt(float(sq)))
    if must_zero or nrm == 0.0:
        return np.zeros_like(w), True
    return (1.0 - a / nrm) * w, False


def hier_fmin(v, u, a, M):
    """Vectorised over rows.  v: (R,K) skip rows, u: (R,h) hidden rows.  Returns (fmin (R,), rbest (R,))."""
    v = np.asarray(v, dtype=float)
    u = np.asarray(u, dtype=float)
    R, h = u.shape
    nv = np.sqrt((v * v).sum(1))
    au = np.abs(u)
    cands = [np.zeros(R)]
    if h <= 10:
        for mask in itertools.product([0, 1], repeat=h):
            m = np.array(mask, dtype=float)
            r = (nv - a + M * (au * m).sum(1)) / (1.0 + m.sum() * M * M)
            cands.append(np.maximum(r, 0.0))
    else:
        # F is convex and piecewise quadratic in r; on each piece the clipped hidden weights are the m largest |u_j|: the stationary points of
        # the h+1 'top-m' pieces contain the minimiser (every candidate is evaluated on the true F below, so fewer candidates can only make
        # the reference minimum larger, never smaller)
        srt = -np.sort(-au, axis=1)
        csum = np.concatenate([np.zeros((R, 1)), np.cumsum(srt, axis=1)], axis=1)
        for m_ in range(h + 1):
            cands.append(np.maximum((nv - a + M * csum[:, m_]) / (1.0 + m_ * M * M), 0.0))
    if M > 0:
        for j in range(h):
            cands.append(au[:, j] / M)
    C = np.stack(cands, axis=1)                                   # (R, n_cand)
    over = np.maximum(au[:, None, :] - M * C[:, :, None], 0.0)    # (R, n_cand, h)
    F = 0.5 * (C - nv[:, None]) ** 2 + a * C + 0.5 * (over ** 2).sum(2)
    i = F.argmin(1)
    return F[np.arange(R), i], C[np.arange(R), i]


def hier_objective(beta, theta, v, u, a):
    beta, theta, v, u = (np.asarray(x, dtype=float) for x in (beta, theta, v, u))
    return 0.5 * ((beta - v) ** 2).sum(1) + 0.5 * ((theta - u) ** 2).sum(1) + a * np.sqrt((beta * beta).sum(1))


def hier_feasible_gap(beta, theta, M):
    """max_j |theta_j| - M||beta||  (<= 0 when feasible), per row."""
    beta, theta = np.asarray(beta, dtype=float), np.asarray(theta, dtype=float)
    return np.abs(theta).max(1) - M * np.sqrt((beta * beta).sum(1))


def set_partitions(items):
    """All set partitions of a list (Bell number many), as lists of lists, deterministic order."""
    items = list(items)
    if not items:
        yield []
        return
    first, rest = items[0], items[1:]
    for part in set_partitions(rest):
        for i in range(len(part)):
            yield part[:i] + [[first] + part[i]] + part[i + 1:]
        yield [[first]] + part
