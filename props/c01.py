"""
C01 - GEMINI scores equal their defining statistical distances.
Engine E1: all n-tuples of prediction rows from an interior-simplex menu x affinity menu x every way of
obtaining a GEMINI (13 registry names, 6 classes x both ovo flags + MI, DiscriminativeModel.score on a stub),
compared with the textbook reference of oracles/gemini.py.
"""
import itertools

import numpy as np

from mc import affinity as aff
from mc.core import Explorer, violation, digest
from oracles import gemini as ref

ASSUMPTIONS = [
    "scikit-learn's pairwise_kernels/pairwise_distances called directly are the definition of the named kernels/metrics",
    "scipy HiGHS solves the small transport LPs exactly (reference for Wasserstein-1)",
    "prediction rows come from a finite interior-simplex menu (lattice, near one-hot 1e-3/1e-6, near uniform) plus seed-generic Dirichlet rows",
]

FDIV = ["kl", "tv", "hellinger", "chi2"]
CLASS_OF = {"kl": "KLGEMINI", "tv": "TVGEMINI", "hellinger": "HellingerGEMINI", "chi2": "ChiSquareGEMINI",
            "mmd": "MMDGEMINI", "wasserstein": "WassersteinGEMINI"}


def _stub(P, gemini):
    from gemclus.linear import LinearModel

    class _Stub(LinearModel):
        def predict_proba(self, X):
            return self._P

    m = _Stub(n_clusters=P.shape[1], gemini=gemini)
    m._P = P
    return m


def _targets(family, extra_kw, default_affinity):
    """Yield (label, dist, mode, factory) for every way of getting a GEMINI of this family."""
    import gemclus.gemini as G
    from gemclus.gemini._utils import _str_to_gemini
    out = []
    dists = FDIV if family == "fdiv" else [family]
    for dist in dists:
        for mode in ("ova", "ovo"):
            cls = getattr(G, CLASS_OF[dist])
            out.append((f"class:{CLASS_OF[dist]}(ovo={mode == 'ovo'})", dist, mode,
                        lambda cls=cls, mode=mode: cls(ovo=(mode == "ovo"), **extra_kw)))
            if family == "fdiv" or default_affinity:
                name = f"{dist}_{mode}"
                out.append((f"name:{name}", dist, mode, lambda name=name: _str_to_gemini(name)))
    if family == "fdiv":
        out.append(("class:MI()", "kl", "ova", lambda: G.MI()))
        out.append(("name:mi", "kl", "ova", lambda: _str_to_gemini("mi")))
    return out


def _P_iter(K, n, first, generic_seed):
    rows = ref.interior_rows(K)
    if generic_seed is not None:
        rs = np.random.RandomState(generic_seed)
        made = 0
        while made < 25:
            P = rs.dirichlet(np.ones(K) * rs.choice([0.3, 1.0, 5.0]), size=n)
            if P.min() < 1e-9:          # entries below the clipping epsilon are outside the property's scope (genericity filter)
                continue
            made += 1
            yield P
        return
    if n == 1:
        yield np.array([rows[first]])
        return
    for rest in itertools.product(range(len(rows)), repeat=n - 1):
        yield np.array([rows[first]] + [rows[i] for i in rest])


def score_block(case):
    family, K, n, first, tag, seed, generic_seed = case
    X = aff.dataset(n, 2, seed, nonneg=aff.needs_nonneg(tag) if family == "mmd" else False)
    if family == "mmd":
        kw, y, A = aff.kernel_reference(tag, X, seed)
    elif family == "wasserstein":
        kw, y, A = aff.metric_reference(tag, X, seed)
    else:
        kw, y, A = {}, None, None
    default_affinity = tag in ("linear", "euclidean")
    scale = None
    if A is not None:
        mag = float(np.abs(np.asarray(A, dtype=float)).max())
        scale = np.sqrt(mag) if family == "mmd" else mag
    targets = _targets(family, kw, default_affinity)
    v, nt, n_eval, outs = [], 0, 0, []
    shared = {label: factory() for label, _, _, factory in targets}      # one long-lived object per target, reused for every matrix of the shard
    for P in _P_iter(K, n, first, generic_seed):
        refs = {}
        nontrivial = False
        for label, dist, mode, factory in targets:
            if (dist, mode) not in refs:
                refs[(dist, mode)] = ref.ref_score_slack(P, A, dist, mode)
            expected, slack = refs[(dist, mode)]
            g = factory()
            got_aff = g.compute_affinity(X, y)
            got = float(g(P.copy(), got_aff))
            n_eval += 1
            gs_ = shared[label]
            got_shared = float(gs_(P.copy(), gs_.compute_affinity(X, y)))
            if got_shared != got:
                v.append(violation("score_depends_on_what_the_object_saw_before", {"target": label, "P": P, "fresh_object": got, "reused_object": got_shared,
                                                                                 "history": "the same GEMINI object evaluated on the previous matrices of the shard"},
                                   target=label, dist=dist, mode=mode, K=K, n=n, via="reused_object"))
            if abs(got - expected) > ref.tol(dist, expected, slack, scale) or not np.isfinite(got):
                v.append(violation("score_mismatch", {"target": label, "P": P, "affinity": tag, "got": got, "expected": expected},
                                   target=label, dist=dist, mode=mode, K=K, n=n, via="call"))
            if abs(expected - ref.lower_bound(dist)) > 1e-6:
                nontrivial = True
            # DiscriminativeModel.score on a stub whose predict_proba returns P
            if label.startswith("name:"):
                m = _stub(P, label[5:])
            else:
                m = _stub(P, g)
            got2 = m.score(X, y)
            n_eval += 1
            if abs(got2 - expected) > ref.tol(dist, expected, slack, scale):
                v.append(violation("score_mismatch", {"target": label, "P": P, "affinity": tag, "got": got2, "expected": expected},
                                   target=label, dist=dist, mode=mode, K=K, n=n, via="model.score"))
        # memory layout of the arguments must not matter (Fortran order, non-contiguous views), on the first matrices of the shard
        if n_eval < 400:
            for label, dist, mode, factory in targets[:2]:
                g = factory()
                Ag = g.compute_affinity(X, y)
                base = float(g(P.copy(), Ag))
                big = np.zeros((2 * n, 2 * K))
                big[::2, ::2] = P
                variants = [("P_fortran", np.asfortranarray(P), Ag), ("P_view", big[::2, ::2], Ag)]
                if Ag is not None:
                    Ab = np.zeros((2 * n, 2 * n))
                    Ab[::2, ::2] = Ag
                    variants += [("A_fortran", P, np.asfortranarray(np.asarray(Ag, dtype=float))), ("A_view", P, Ab[::2, ::2])]
                for vname, Pv, Av in variants:
                    n_eval += 1
                    try:
                        got = float(g(Pv, Av))
                        gs, gg = g(Pv, Av, return_grad=True)
                        ok = abs(got - base) <= 1e-12 * max(1.0, abs(base)) + refs[(dist, mode)][1] and np.shape(gg) == P.shape
                    except Exception as e:  # noqa
                        ok, got = False, repr(e)[:200]
                    if not ok:
                        v.append(violation("score_depends_on_memory_layout", {"target": label, "layout": vname, "P": P, "contiguous": base, "got": got},
                                           target=label, dist=dist, mode=mode, K=K, n=n, via=vname))
        # call history on one GEMINI object: the affinity returned by compute_affinity is evaluated, edited IN PLACE (same array object,
        # new content) and evaluated again: the score is a function of the content it is given, not of what the object saw before
        if A is not None and n_eval < 600:
            for label, dist, mode, factory in targets[:4]:
                g = factory()
                Ag = g.compute_affinity(X, None if y is None else np.array(y, dtype=float, copy=True))
                Ag = np.array(Ag, dtype=float, copy=True) if Ag is y else Ag
                if not isinstance(Ag, np.ndarray) or Ag.dtype != float:
                    continue
                g(P.copy(), Ag, return_grad=True)
                Ag *= 4.0
                Ag += Ag.T * 0.25
                n_eval += 1
                got = float(g(P.copy(), Ag))
                _, G_used = g(P.copy(), Ag, return_grad=True)
                _, G_fresh = factory()(P.copy(), np.array(Ag, copy=True), return_grad=True)
                if np.shape(G_used) != np.shape(G_fresh) or not np.allclose(G_used, G_fresh, rtol=1e-9, atol=1e-12 * max(1.0, float(np.abs(G_fresh).max()))):
                    v.append(violation("gradient_depends_on_what_the_object_saw_before", {"target": label, "P": P, "used_instance": G_used, "fresh_instance": G_fresh,
                                                                                        "history": "evaluate with gradient; edit the affinity array in place; evaluate with gradient"},
                                       target=label, dist=dist, mode=mode, K=K, n=n, via="in_place_edit_grad"))
                exp2, slack2 = ref.ref_score_slack(P, np.array(Ag), dist, mode)
                if abs(got - exp2) > ref.tol(dist, exp2, slack2, scale):
                    v.append(violation("score_depends_on_what_the_object_saw_before", {"target": label, "P": P, "got": got, "expected": exp2,
                                                                                     "history": "compute_affinity; evaluate; edit the array in place; evaluate"},
                                       target=label, dist=dist, mode=mode, K=K, n=n, via="in_place_edit"))
                # same for the predictions array (same object, new rows) and for the data handed to compute_affinity
                Pm = P.copy()
                g(Pm, Ag)
                Pm[:] = Pm[::-1].copy() if n > 1 else Pm
                Pm[:, [0, -1]] = Pm[:, [-1, 0]]
                got = float(g(Pm, Ag))
                exp3, slack3 = ref.ref_score_slack(np.array(Pm), np.array(Ag), dist, mode)
                n_eval += 1
                if abs(got - exp3) > ref.tol(dist, exp3, slack3, scale):
                    v.append(violation("score_depends_on_what_the_object_saw_before", {"target": label, "P": Pm, "got": got, "expected": exp3,
                                                                                     "history": "evaluate; edit the predictions array in place; evaluate"},
                                       target=label, dist=dist, mode=mode, K=K, n=n, via="in_place_edit_P"))
                if y is None:
                    Xm = X.copy()
                    g.compute_affinity(Xm)
                    Xm *= 1.5
                    A_again = g.compute_affinity(Xm)
                    A_fresh = factory().compute_affinity(Xm.copy())
                    if not np.array_equal(np.asarray(A_again), np.asarray(A_fresh)):
                        v.append(violation("affinity_depends_on_what_the_object_saw_before", {"target": label, "history": "compute_affinity(X); X edited in place; compute_affinity(X)"},
                                           target=label, dist=dist, mode=mode, K=K, n=n, via="in_place_edit_X"))
        if nontrivial:
            nt += 1
        if len(outs) < 4:
            outs.append(tuple(round(x[0], 9) for x in refs.values()))
    # the long-lived objects are finally asked on another shape (one more sample, one more cluster)
    if generic_seed is None:
        X2 = aff.dataset(n + 1, 2, seed + 1, nonneg=aff.needs_nonneg(tag) if family == "mmd" else False)
        P2 = np.random.RandomState(seed + n + K).dirichlet(np.ones(K + 1), size=n + 1)
        for label, dist, mode, factory in targets:
            try:
                if family == "mmd":
                    _, y2, _ = aff.kernel_reference(tag, X2, seed)
                elif family == "wasserstein":
                    _, y2, _ = aff.metric_reference(tag, X2, seed)
                else:
                    y2 = None
                a_ = float(shared[label](P2.copy(), shared[label].compute_affinity(X2, y2)))
                f_ = factory()
                b_ = float(f_(P2.copy(), f_.compute_affinity(X2, y2)))
            except Exception as e:  # noqa
                a_, b_ = repr(e)[:100], None
            n_eval += 1
            if a_ != b_:
                v.append(violation("score_depends_on_what_the_object_saw_before", {"target": label, "fresh_object": b_, "reused_object": a_,
                                                                                 "history": "object used on (n,K) then on (n+1,K+1)"},
                                   target=label, dist=dist, mode=mode, K=K, n=n, via="reused_object_other_shape"))
    return {"v": v[:30], "stats": {"evals": n_eval, "nt_distinct": nt}, "out": outs,
            "sample": {"family": family, "K": K, "n": n, "affinity": tag, "first_row": ref.interior_rows(K)[first] if generic_seed is None else "dirichlet",
                       "targets": [t[0] for t in targets]}}


def large_block(case):
    """Hundreds to thousands of samples and up to 64 clusters (sizes straddling the powers of two an implementation would block on):
    score by direct call, with the gradient requested, on a long-lived object and through DiscriminativeModel.score, against the definition."""
    family, K, n, tag, seed, gseed = case
    rs = np.random.RandomState(gseed)
    big_data = lambda d: np.random.RandomState(40_000 + 7 * seed + n + d).normal(size=(n, d))     # noqa: E731 (continuous draws: distinct almost surely)
    if family == "wasserstein":
        X = big_data(1)
        kw, y, A = aff.metric_reference(tag, X, seed)
        A_ref, scale = ref.Line(X[:, 0]), float(np.ptp(X))
    elif family == "mmd":
        X = big_data(2)
        kw, y, A_ref = aff.kernel_reference(tag, X, seed)
        scale = float(np.sqrt(np.abs(A_ref).max()))
    else:
        X, kw, y, A_ref, scale = big_data(2), {}, None, None, None
    targets = _targets(family, kw, tag in ("linear", "euclidean"))
    shared = {label: factory() for label, _, _, factory in targets}
    mats = []
    for conc in (1.0, 5.0):
        P = rs.dirichlet(np.ones(K) * conc, size=n)
        mats.append(np.maximum(P, 1e-7) / np.maximum(P, 1e-7).sum(1, keepdims=True))
    hard = np.eye(K)[rs.choice(K, size=n, p=rs.dirichlet(np.ones(K) * 2))]
    mats.append(0.9 * hard + 0.1 / K)                                  # near-hard memberships, unbalanced clusters
    v, nt, n_eval = [], 0, 0
    for P in mats:
        refs = {}
        for label, dist, mode, factory in targets:
            if (dist, mode) not in refs:
                refs[(dist, mode)] = ref.ref_score_slack(P, A_ref, dist, mode)
            expected, slack = refs[(dist, mode)]
            tol = ref.tol(dist, expected, slack, scale) + 1e-12 * n * max(1.0, abs(expected)) * 1e-1
            g = factory()
            Ag = g.compute_affinity(X, y)
            obs = {"call": float(g(P.copy(), Ag)), "call_with_gradient": float(g(P.copy(), Ag, return_grad=True)[0]),
                   "reused_object": float(shared[label](P.copy(), shared[label].compute_affinity(X, y))),
                   "model.score": float(_stub(P, label[5:] if label.startswith("name:") else g).score(X, y))}
            n_eval += len(obs)
            for via, got in obs.items():
                if not np.isfinite(got) or abs(got - expected) > tol:
                    v.append(violation("score_mismatch", {"target": label, "n": n, "K": K, "affinity": tag, "got": got, "expected": expected, "P_seed": gseed},
                                       target=label, dist=dist, mode=mode, K=K, n=n, via=via))
        nt += 1
    return {"v": v[:30], "stats": {"evals": n_eval, "nt_distinct": nt}, "out": [tuple(round(x[0], 9) for x in refs.values())],
            "sample": {"family": family, "K": K, "n": n, "affinity": tag, "targets": [t[0] for t in targets]}}


def container_case(case):
    """The data may come in any numeric container: count data stored as (un)signed 8/16/32/64-bit integers, float32, nested lists, Fortran order,
    read-only, strided views.  The affinity and the score are those of the float64 copy (to single precision for float32 data)."""
    family, tag, form, n, seed = case
    rs = np.random.RandomState(50_000 + seed + n)
    Xi = rs.randint(0, 120, size=(n, 3))                        # products of two entries exceed the range of 8 and 16 bit integers
    if family == "mmd":
        kw, _, A_ref = aff.kernel_reference(tag, Xi.astype(float), seed)
    else:
        kw, _, A_ref = aff.metric_reference(tag, Xi.astype(float), seed)
    big = np.zeros((2 * n, 6))
    big[::2, ::2] = Xi
    ro = Xi.astype(float)
    ro.setflags(write=False)
    Xin = {"uint8": Xi.astype(np.uint8), "int8": (Xi - 60).astype(np.int8), "int16": Xi.astype(np.int16), "int32": Xi.astype(np.int32), "int64": Xi.astype(np.int64),
           "float32": Xi.astype(np.float32), "list": Xi.tolist(), "fortran": np.asfortranarray(Xi.astype(float)), "readonly": ro, "strided": big[::2, ::2]}[form]
    if form == "int8":
        A_ref = (aff.kernel_reference(tag, (Xi - 60).astype(float), seed) if family == "mmd" else aff.metric_reference(tag, (Xi - 60).astype(float), seed))[2]
    P = rs.dirichlet(np.ones(3), size=n)
    v = []
    rtol = 1e-5 if form == "float32" else 1e-12
    for label, dist, mode, factory in _targets(family, kw, tag in ("linear", "euclidean")):
        g = factory()
        where = dict(target=label, dist=dist, mode=mode, K=3, n=n, via="container:" + form)
        try:
            A = np.asarray(g.compute_affinity(Xin), dtype=float)
            got = float(g(P.copy(), g.compute_affinity(Xin)))
            got2 = float(_stub(P, label[5:] if label.startswith("name:") else g).score(Xin))
        except Exception as e:  # noqa
            v.append(violation("score_mismatch", {"target": label, "container": form, "affinity": tag, "error": repr(e)[:200]}, **where))
            continue
        expected, slack = ref.ref_score_slack(P, A_ref, dist, mode)
        scale = float(np.abs(A_ref).max())
        if A.shape != A_ref.shape or not np.allclose(A, A_ref, rtol=rtol, atol=rtol * scale):
            v.append(violation("affinity_depends_on_the_container_of_the_data", {"target": label, "container": form, "affinity": tag, "got": A[:2, :3], "expected": A_ref[:2, :3]}, **where))
        for gval in (got, got2):
            if not abs(gval - expected) <= ref.tol(dist, expected, slack, None) + (1e-4 * max(1.0, abs(expected)) if form == "float32" else 0.0):
                v.append(violation("score_mismatch", {"target": label, "container": form, "affinity": tag, "got": gval, "expected": expected}, **where))
                break
    return {"v": v[:6], "nt": [case], "stats": {"evals": 3}, "sample": {"family": family, "affinity": tag, "container": form}}


def shared_params_case(case):
    """One user dictionary of kernel parameters serves several objectives.  An objective whose kernel does not understand some of the keys is
    used first (it may refuse, or warn and go on - under any warning filter); the next objective, built with the same dictionary object, still
    scores with every parameter the user wrote."""
    first, second, mode, ovo, seed = case
    import gemclus.gemini as G
    from mc import failures
    from sklearn.metrics import pairwise_kernels
    pristine = {"gamma": 0.5, "degree": 2, "coef0": 0.25} if second == "poly" else {"gamma": 0.5, "coef0": 0.25}     # all keys valid for `second`
    d_user = dict(pristine)
    rs = np.random.RandomState(seed + 77)
    X = rs.normal(size=(7, 2))
    P = rs.dirichlet(np.ones(3), size=7)
    g1 = G.MMDGEMINI(ovo=ovo, kernel=first, kernel_params=d_user)
    failures.attempt(lambda: g1(P.copy(), g1.compute_affinity(X)), mode)
    g2 = G.MMDGEMINI(ovo=ovo, kernel=second, kernel_params=d_user)
    where = dict(target=f"class:MMDGEMINI(ovo={ovo})", dist="mmd", mode="ovo" if ovo else "ova", K=3, n=7, via=f"shared_kernel_params_after_{first}")
    v = []
    try:
        got = float(g2(P.copy(), g2.compute_affinity(X)))
        A_ref = pairwise_kernels(X, metric=second, **pristine)
        expected, slack = ref.ref_score_slack(P, A_ref, "mmd", "ovo" if ovo else "ova")
        if abs(got - expected) > ref.tol("mmd", expected, slack, float(np.sqrt(np.abs(A_ref).max()))):
            v.append(violation("score_mismatch", {"target": where["target"], "kernel": second, "kernel_params_as_written": pristine, "dictionary_now": d_user,
                                                  "got": got, "expected": expected, "history": f"an objective with kernel {first!r} used the same dictionary first (warnings: {mode})"}, **where))
    except Exception as e:  # noqa
        v.append(violation("score_mismatch", {"target": where["target"], "kernel": second, "error": repr(e)[:200], "dictionary_now": d_user}, **where))
    # the objective RECONFIGURED after it was built and used - by set_params where the object offers it (as scikit-learn's tooling does through
    # nested parameters), else by assigning the public hyperparameter - scores with the new parameters
    import copy
    for how in ("assign", "deepcopy_then_assign"):
        g3 = G.MMDGEMINI(ovo=ovo, kernel=second, kernel_params=dict(pristine))
        try:
            g3(P.copy(), g3.compute_affinity(X))
            if how == "deepcopy_then_assign":
                g3 = copy.deepcopy(g3)
            new_params = dict(pristine, gamma=2.0)
            if hasattr(g3, "set_params"):
                g3.set_params(kernel_params=new_params)
            else:
                g3.kernel_params = new_params
            got3 = float(g3(P.copy(), g3.compute_affinity(X)))
            A3 = pairwise_kernels(X, metric=second, **new_params)
            exp3, slack3 = ref.ref_score_slack(P, A3, "mmd", "ovo" if ovo else "ova")
            if abs(got3 - exp3) > ref.tol("mmd", exp3, slack3, float(np.sqrt(np.abs(A3).max()))):
                v.append(violation("score_mismatch", {"target": where["target"], "kernel": second, "history": f"objective used, then kernel_params changed ({how})",
                                                      "got": got3, "expected": exp3}, **dict(where, via="reconfigured_objective")))
                break
        except Exception as e:  # noqa
            v.append(violation("score_mismatch", {"target": where["target"], "history": how, "error": repr(e)[:200]}, **dict(where, via="reconfigured_objective")))
            break
    if d_user != pristine:
        v.append(violation("score_depends_on_what_the_object_saw_before", {"target": where["target"], "history": "the user's kernel_params dictionary was rewritten",
                                                                         "as_written": pristine, "now": d_user}, **where))
    return {"v": v[:3], "nt": [case], "stats": {"evals": 3}, "sample": {"first_kernel": first, "second_kernel": second, "warnings": mode}}


def explorers(tier, seed):
    thorough = tier == "thorough"
    gseed = 1000 + seed
    shapes_full = [(2, 1), (2, 2), (2, 3), (3, 1), (3, 2), (3, 3)]
    shapes_f = shapes_full + ([(2, 4), (3, 4), (4, 1), (4, 2), (4, 3), (2, 5)] if thorough else [])
    shapes_w = shapes_full + ([(2, 4), (4, 1), (4, 2)] if thorough else [])
    shapes_small = [(2, 1), (2, 2), (3, 1), (3, 2)] + ([(2, 3), (3, 3), (4, 2)] if thorough else [])
    c_f, c_m, c_w = [], [], []

    def firsts(K):
        return range(len(ref.interior_rows(K)))
    for K, n in shapes_f:
        c_f += [("fdiv", K, n, f, "none", seed, None) for f in firsts(K)]
    for K, n in [(2, 2), (2, 5), (3, 4), (4, 6), (5, 3), (3, 7)]:
        c_f.append(("fdiv", K, n, 0, "none", seed, gseed + K * 10 + n))
    for K, n in shapes_w:
        for tag in ("linear", "pre_indef"):
            c_m += [("mmd", K, n, f, tag, seed, None) for f in firsts(K)]
        for tag in ("euclidean", "pre_sym"):
            c_w += [("wasserstein", K, n, f, tag, seed, None) for f in firsts(K)]
    for K, n in shapes_small:
        for spec in aff.KERNEL_SPECS:
            if spec[0] not in ("linear", "pre_indef"):
                c_m += [("mmd", K, n, f, spec[0], seed, None) for f in firsts(K)]
        for spec in aff.METRIC_SPECS:
            if spec[0] not in ("euclidean", "pre_sym"):
                c_w += [("wasserstein", K, n, f, spec[0], seed, None) for f in firsts(K)]
    for K, n in [(2, 4), (3, 5), (4, 4)]:
        for tag in ("rbf_g", "pre_psd", "callable"):
            c_m.append(("mmd", K, n, 0, tag, seed, gseed + K * 10 + n))
        for tag in ("l1", "pre_metric"):
            c_w.append(("wasserstein", K, n, 0, tag, seed, gseed + K * 10 + n))
    # ground costs without the triangle inequality (cosine, squared Euclidean, an arbitrary symmetric matrix) need >= 3 samples to differ from a metric
    for K, n in [(2, 3), (2, 4), (2, 6), (3, 4), (3, 5)]:
        for tag in ("cosine", "sqeuclid_p", "pre_sym"):
            c_w.append(("wasserstein", K, n, 0, tag, seed, gseed + 100 + K * 10 + n))
    rule_p = ("ALL n-tuples of rows from the interior menu (lattice c/(K+2), near one-hot 1e-3/1e-6 per vertex, near-uniform) "
              "for the listed (K,n), plus seed-generic Dirichlet matrices; every target = registry name, class(ovo flag), and "
              "DiscriminativeModel.score on a stub; non-trivial = prediction matrix whose reference score differs from the lower bound by >1e-6")
    big_f = [(3, 700), (32, 1500), (64, 700), (5, 2049)] + ([(2, 1300), (40, 3000), (3, 4099), (7, 513)] if thorough else [])
    big_m = [(3, 700), (16, 600)] + ([(4, 1300), (3, 2049)] if thorough else [])
    big_w = [(3, 300), (8, 700)] + ([(2, 1300), (5, 513)] if thorough else [])
    c_big = [("fdiv", K, n, "none", seed, gseed + K + n) for K, n in big_f] + \
            [("mmd", K, n, tag, seed, gseed + K + n) for K, n in big_m for tag in ("linear", "rbf_g")] + \
            [("wasserstein", K, n, tag, seed, gseed + K + n) for K, n in big_w for tag in ("euclidean", "l1")]
    forms = ["uint8", "int8", "int16", "int32", "int64", "float32", "list", "fortran", "readonly", "strided"]
    c_cont = [("mmd", t_, f_, n_, seed) for t_ in ("linear", "rbf_g", "poly_p", "cosine", "sigmoid_nog") for f_ in forms for n_ in (4, 9)] + \
             [("wasserstein", t_, f_, n_, seed) for t_ in ("euclidean", "l1", "cosine") for f_ in forms for n_ in (4, 9)]
    c_sh = [(f_, s_, m_, o_, seed) for f_ in ("rbf", "laplacian", "linear", "cosine", "sigmoid", "poly") for s_ in ("poly", "sigmoid")
            for m_ in ("ignore", "error", "always") for o_ in (False, True) if f_ != s_]
    return [
        Explorer("shared_parameter_dictionaries", "props.c01", "shared_params_case", c_sh, chunk=8, floor=20,  # also: objectives reconfigured after use
                 rule="one user kernel_params dictionary ({gamma, degree, coef0} / {gamma, coef0}) shared by two MMD objectives: the first one's kernel ignores / rejects some keys "
                      "(call attempted with warnings shown, silenced and as errors), the second one must score with all parameters as written; dictionary unchanged"),
        Explorer("data_containers", "props.c01", "container_case", c_cont, chunk=8, floor=50,
                 rule="named kernels and metrics on count data handed over as uint8, int8, int16, int32, int64, float32, nested lists, Fortran order, read-only "
                      "and strided views: compute_affinity and the score (call and model.score) are those of the float64 copy (integer products must not wrap around)"),
        Explorer("large_shapes", "props.c01", "large_block", c_big, chunk=1, floor=8, case_timeout=1500,
                 rule="every target (registry name, class x ovo flag, model.score on a stub) on hundreds to thousands of samples and up to 64 clusters: "
                      "two seed-generic Dirichlet matrices and one near-hard unbalanced matrix per shape; score by plain call, with the gradient "
                      "requested, on a reused object and through score(); reference = the definition (Wasserstein on 1-D data, where W1 is the "
                      "closed-form CDF difference); sizes straddle 512/1024/2048/4096 so that any blocked evaluation has a short last block",
                 bound=f"f-divergences (K,n) in {big_f}; MMD {big_m}; Wasserstein {big_w}"),
        Explorer("fdivergences", "props.c01", "score_block", c_f, chunk=2, floor=100, rule=rule_p,
                 bound=f"(K,n) in {shapes_f}"),
        Explorer("mmd", "props.c01", "score_block", c_m, chunk=2, floor=100,
                 rule=rule_p + "; kernels: " + ",".join(s[0] for s in aff.KERNEL_SPECS),
                 bound=f"default/indefinite kernels (K,n) in {shapes_w}; whole kernel menu (K,n) in {shapes_small}"),
        Explorer("wasserstein", "props.c01", "score_block", c_w, chunk=1, floor=100,
                 rule=rule_p + "; metrics: " + ",".join(s[0] for s in aff.METRIC_SPECS) + "; reference = transport LP (HiGHS)",
                 bound=f"default/precomputed metrics (K,n) in {shapes_w}; whole metric menu (K,n) in {shapes_small}"),
    ]
