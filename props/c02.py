"""
C02 - GEMINI gradients are the exact derivative of the returned score.
Engine E1: every (GEMINI class, ovo flag, affinity spec) x shape (n,K) x logit scale x logit table
(seed-generic tables and perturbed lattice points that visit the differentiability regions).  Oracle:
  (a) softmax-chain identity  dScore/dz_ia = P_ia (G_ia - <P_i, G_i>)  against two-step central differences of the
      *returned score*; a point counts as differentiable only if the estimates with steps h and h/8 agree;
  (b) directional derivative along simplex tangents e_a - e_b per row equals G_ia - G_ib;
  (c) score with return_grad=True is bitwise the score without; (d) gradient has the shape of P;
  (e) entries outside (eps, 1-eps) receive exactly zero gradient.
"""
import itertools
import zlib

import numpy as np

from mc import affinity as aff
from mc.core import Explorer, violation
from oracles import gemini as ref

ASSUMPTIONS = [
    "derivatives are checked by two-step central differences (h=1e-4, h/8) in logit space; points where the two estimates "
    "disagree (kinks: TV sign changes, OT basis changes, MMD zero distances) only get the finiteness/shape/clip checks",
    "logit tables are seed-generic (VERIF_SEED) or lattice points with a generic perturbation",
]
SCALES = [0.3, 1.0, 3.0, 10.0, 30.0]
H = 1e-4


def softmax(z):
    z = z - z.max(1, keepdims=True)
    e = np.exp(z)
    return e / e.sum(1, keepdims=True)


def _gemini(target, kw, epsilon=None):
    import gemclus.gemini as G
    cls, ovo = target
    extra = {} if epsilon is None else {"epsilon": epsilon}
    if cls == "MI":
        return G.MI(**extra)
    return getattr(G, cls)(ovo=ovo, **kw, **extra)


def _table(n, K, table, seed):
    """logits table: ('gen', idx) seed-generic, ('lat', idx-tuple) perturbed interior-lattice rows."""
    kind, idx = table
    rs = np.random.RandomState(1000 + seed * 7919 + (zlib.crc32(repr((n, K, kind, idx)).encode()) % 100003))
    if kind == "gen":
        while True:
            L = rs.normal(size=(n, K))
            flat = np.sort(L.reshape(-1))
            if len(flat) == 1 or np.min(np.diff(flat)) > 1e-3:
                return L
    rows = [np.array(c, dtype=float) / (K + 2) for c in ref.compositions(K + 2, K)]
    L = np.log(np.array([rows[i] for i in idx]))
    return L + 0.02 * rs.normal(size=L.shape)


def _mmd_near_zero_distance(P, A, ovo, eps):
    Pc = np.clip(P, eps, 1 - eps)
    pi, cond, px = ref.conditionals(Pc)
    K = P.shape[1]
    pairs = [(cond[:, a], cond[:, b]) for a in range(K) for b in range(a + 1, K)] if ovo else \
            [(cond[:, k], px) for k in range(K)]
    absA = np.abs(A)
    for p, q in pairs:
        d = p - q
        d2 = float(d @ A @ d)
        S = float((np.abs(p) + np.abs(q)) @ absA @ (np.abs(p) + np.abs(q)))
        if abs(d2) < 1e-6 * S:      # near zero on either side; a clearly negative value (indefinite kernel) is a smooth region: the term is 0
            return True
    return False


def _regions(g, P, A, dist, ovo):
    """Key of the differentiability region this point lies in (reported as observed outcome)."""
    pi = P.mean(0)
    if dist == "tv":
        if ovo:
            cross = pi[None, :, None] * P[:, None, :]
            return ("tv", np.sign(cross - cross.transpose(0, 2, 1)).astype(int).tobytes())
        return ("tv", np.sign(P - pi).astype(int).tobytes())
    if dist == "wasserstein":
        import ot
        n = len(P)
        wy = np.ascontiguousarray((P / (pi * n)).T)
        sup = []
        if ovo:
            for a, b in itertools.combinations(range(P.shape[1]), 2):
                sup.append((ot.emd(wy[a], wy[b], np.ascontiguousarray(A)) > 1e-13).tobytes())
        else:
            for k in range(P.shape[1]):
                sup.append((ot.emd(wy[k], np.ones(n) / n, np.ascontiguousarray(A)) > 1e-13).tobytes())
        return ("ot", tuple(sup))
    if dist == "mmd":
        return ("mmd", "generic")
    return (dist, "smooth")


def grad_case(case):
    target, dist, K, n, s, tag, table, seed = case[:8]
    epsilon = case[8] if len(case) > 8 else None      # non-default clipping precision: part of the columns is clipped
    coincident = len(case) > 9 and case[9] == "coincident"   # logits of size s << 1: clusters that nearly coincide (a fresh initialisation)
    cls, ovo = target
    X = aff.dataset(n, 2, seed, nonneg=aff.needs_nonneg(tag) if dist == "mmd" else False)
    if dist == "mmd":
        kw, y, A = aff.kernel_reference(tag, X, seed)
    elif dist == "wasserstein":
        kw, y, A = aff.metric_reference(tag, X, seed)
    else:
        kw, y, A = {}, None, None
    g = _gemini(target, kw, epsilon)
    transported = None
    if epsilon is not None or (n + K + int(s * 10)) % 5 == 0:
        # the objective as scikit-learn's tooling carries it inside an estimator: cloned, deep-copied, pickled to a worker and back
        from mc import transport
        transported = transport.pick((cls, ovo, K, n, s, tag, epsilon))
        try:
            if transported == "cloudpickle" and kw.get("kernel") != "callable":
                from sklearn.base import clone
                from gemclus.linear import LinearModel
                g = clone(LinearModel(gemini=g)).get_gemini()
                transported = "clone_of_a_model_holding_it"
            else:
                g = transport.roundtrip(g, transported)
        except Exception as e:  # noqa
            return {"v": [violation("grad_nonfinite", {"transport": transported, "error": repr(e)[:200]}, target=f"{cls}(ovo={ovo})", dist=dist, K=K, n=n, scale=s,
                                    affinity=tag, epsilon=epsilon)]}
    Aff = g.compute_affinity(X, y)
    Z = s * _table(n, K, table, seed)
    P = softmax(Z)
    where = dict(target=f"{cls}(ovo={ovo})", dist=dist, K=K, n=n, scale=s, affinity=tag, epsilon=epsilon)
    if transported:
        where["transport"] = transported
    v = []
    with np.errstate(all="ignore"):
        s0, G = g(P.copy(), Aff, return_grad=True)
        s1 = g(P.copy(), Aff)
    G_returned = G                      # the very object handed back: it belongs to the caller from now on
    G = np.array(G, dtype=float, copy=True)
    if np.shape(G) != P.shape:
        return {"v": [violation("grad_shape", f"gradient shape {np.shape(G)} for predictions {P.shape}", **where)]}
    if not (np.isfinite(G).all() and np.isfinite(s0)):
        v.append(violation("grad_nonfinite", {"P": P, "G": G, "score": s0}, **where))
        return {"v": v}
    if not (float(s0) == float(s1)):
        v.append(violation("score_depends_on_return_grad", {"with": float(s0), "without": float(s1), "P": P}, **where))
    eps = g.epsilon
    clipped = (P <= eps) | (P >= 1 - eps)
    if np.any(G[clipped] != 0):
        v.append(violation("clipped_entry_nonzero_grad", {"P": P, "G": G, "clipped": clipped}, **where))

    def F(z):
        return float(g(softmax(z), Aff))

    # natural magnitude of the score: affinities of magnitude 1e-9 must not be judged with an absolute 1e-8
    unit = 1.0
    if Aff is not None:
        mag = float(np.abs(np.asarray(Aff, dtype=float)).max())
        unit = min(1.0, mag if dist == "wasserstein" else np.sqrt(mag))
    # near-coincident clusters: the score is a cone-like function of the logits there, so the steps shrink with the logits and
    # the comparison is relative only (the values are ~s, the inputs carry rounding noise ~1e-16)
    h0 = H if not coincident else 1e-2 * s
    r_agree, r_err = (1e-6, 1e-6) if not coincident else (2e-3, 3e-2)
    if dist == "wasserstein":
        # the network simplex of POT stops pivoting on reduced costs below an ABSOLUTE ~2e-15: with distances of magnitude 1e-9 the
        # returned plan (hence score) is optimal only to ~1e-6 relative, and so is the match between its duals and its value
        r_err += 1e-13 / max(mag, 1e-300)
        r_agree += 1e-13 / max(mag, 1e-300)
    chain = P * (G - (P * G).sum(1, keepdims=True))
    num1 = np.zeros_like(Z)
    num2 = np.zeros_like(Z)
    for idx in np.ndindex(Z.shape):
        for h, out in ((h0, num1), (h0 / 8, num2)):
            zp = Z.copy(); zp[idx] += h
            zm = Z.copy(); zm[idx] -= h
            out[idx] = (F(zp) - F(zm)) / (2 * h)
    scale = max(np.abs(num2).max(), 0.0)
    agree = np.abs(num1 - num2) <= r_agree * scale + 1e-9 * max(unit, abs(s0))
    differentiable = bool(agree.all())
    if dist == "mmd" and _mmd_near_zero_distance(P, Aff, ovo, eps):
        # a cluster-to-cluster (or cluster-to-data) MMD is so small that the rounding noise under the square
        # root dominates: this is the neighbourhood of the zero-distance kink, where neither the numeric
        # nor the analytic derivative is meaningful in floating point (DESIGN.md 3.2)
        differentiable = False
    ndiff = 0
    if differentiable:
        ndiff = 1
        err = np.abs(chain - num2)
        tol = r_err * scale + 1e-8 * max(unit, abs(s0))
        if err.max() > tol:
            v.append(violation("gradient_mismatch", {"P": P, "analytic_chain": chain, "numeric": num2, "max_err": err.max(),
                                                     "tol": tol, "score": s0}, **where))
        # tangent directions on the simplex (only for rows safely inside)
        if n * K <= 12 and not coincident:
            for i in range(n):
                for a, b in itertools.combinations(range(K), 2):
                    m = min(P[i, a], P[i, b])
                    if m < 1e-7:
                        continue
                    ests = []
                    for t in (min(1e-5, 0.05 * m), min(1e-5, 0.05 * m) / 8):
                        Pp = P.copy(); Pp[i, a] += t; Pp[i, b] -= t
                        Pm = P.copy(); Pm[i, a] -= t; Pm[i, b] += t
                        ests.append((float(g(Pp, Aff)) - float(g(Pm, Aff))) / (2 * t))
                    d_an = G[i, a] - G[i, b]
                    sc = max(abs(ests[1]), abs(d_an))
                    if abs(ests[0] - ests[1]) > 1e-5 * sc + 1e-7 * max(unit, abs(s0)):
                        continue        # not resolvable numerically at this point
                    if abs(d_an - ests[1]) > (1e-5 + (r_err - 1e-6)) * sc + 1e-6 * max(unit, abs(s0)):
                        v.append(violation("tangent_derivative_mismatch",
                                           {"P": P, "row": i, "a": a, "b": b, "analytic": d_an, "numeric": ests[1]}, **where))
    # the object has now been evaluated at many neighbouring points: asked again at the original point it answers as it did when fresh
    with np.errstate(all="ignore"):
        s_again, G_again = g(P.copy(), Aff, return_grad=True)
    if not (float(s_again) == float(s0) and np.array_equal(np.asarray(G_again), G)):
        v.append(violation("answer_depends_on_what_the_object_saw_before", {"P": P, "first": G, "after_other_evaluations": G_again}, **where))
    # ... and the array returned by the FIRST call is still that gradient, after all the later evaluations of this object and after another object
    # of the same class has evaluated a gradient of the same shape (no buffer shared between calls or objects)
    with np.errstate(all="ignore"):
        g_other = _gemini(target, kw, epsilon)
        g_other(softmax(Z[::-1] * 0.7 + 0.1), Aff, return_grad=True)
    if np.shape(G_returned) != G.shape or not np.array_equal(np.asarray(G_returned, dtype=float), G):
        v.append(violation("returned_gradient_overwritten_by_later_evaluations", {"P": P, "returned_then": G, "same_array_now": np.asarray(G_returned)}, **where))
    # the memory layout of the predictions is not part of the point: Fortran-ordered predictions get the same score and gradient
    if n > 1 and K > 1:
        with np.errstate(all="ignore"):
            sF, GF = g(np.asfortranarray(P), Aff, return_grad=True)
        if not (abs(float(sF) - float(s0)) <= 1e-12 * max(unit, abs(float(s0))) and np.allclose(np.asarray(GF, dtype=float), G, rtol=1e-9, atol=1e-12 * max(unit, np.abs(G).max()))):
            v.append(violation("gradient_depends_on_memory_layout", {"P": P, "c_order": G, "fortran_order": np.asarray(GF)}, **where))
    region = _regions(g, P, Aff, dist, ovo)
    return {"v": v[:6], "nt": [case] if differentiable and scale > 1e-9 * unit else [],
            "out": [(cls, ovo, K, n, region)], "stats": {"evals": 1, "differentiable": ndiff, "kinks": 1 - ndiff},
            "sample": {"target": where["target"], "K": K, "n": n, "scale": s, "affinity": tag, "table": table, "P": P}}


def documented_defaults_case(case):
    """An objective built WITHOUT the optional arguments is the objective the documentation describes: same clipping precision, hence the same
    score and the same gradient (zero on the entries the documented bounds clip) as the object built with the documented values written out."""
    ti, K, n, seed = case
    import gemclus.gemini as Gm
    from gemclus.gemini._utils import _str_to_gemini
    from mc.defaults import documented_defaults
    target, dist = TARGETS[ti]
    cls, ovo = target
    klass = getattr(Gm, cls)
    doc = documented_defaults(klass)
    where = dict(target=f"{cls}(ovo={ovo})", dist=dist, K=K, n=n, scale=0, affinity="default", epsilon=None)
    rs = np.random.RandomState(9100 + seed + K + n)
    X = rs.normal(size=(n, 2))
    # saturated predictions with entries on both sides of the documented precision (1e-12) and of nearby powers of ten
    P = softmax(rs.normal(size=(n, K)))
    tiny = [1e-10, 3e-11, 1e-13, 1e-15, 1e-9, 2e-12][: n]
    for i, t_ in enumerate(tiny):
        P[i] = t_
        P[i, i % K] = 1 - (K - 1) * t_
    kwargs_doc = {k: v for k, v in doc.items() if k not in ("ovo",)}
    objs = [("default_constructed", klass() if cls == "MI" else klass(ovo=ovo)), ("documented_values_written_out", klass(**kwargs_doc) if cls == "MI" else klass(ovo=ovo, **kwargs_doc))]
    name = {"KLGEMINI": "kl", "TVGEMINI": "tv", "HellingerGEMINI": "hellinger", "ChiSquareGEMINI": "chi2", "MMDGEMINI": "mmd", "WassersteinGEMINI": "wasserstein"}.get(cls)
    if name is not None:
        objs.append(("registry_name", _str_to_gemini(f"{name}_{'ovo' if ovo else 'ova'}")))
    elif cls == "MI":
        objs.append(("registry_name", _str_to_gemini("mi")))
    v, res = [], []
    for label, g in objs:
        with np.errstate(all="ignore"):
            sc, G = g(P.copy(), g.compute_affinity(X), return_grad=True)
        res.append((label, float(sc), np.asarray(G, dtype=float), getattr(g, "epsilon", None)))
    base = res[1]
    for label, sc, G, eps in res:
        if eps != doc.get("epsilon", eps):
            v.append(violation("default_differs_from_the_documented_value", {"object": label, "epsilon": eps, "documented": doc.get("epsilon")}, **where))
        if not (abs(sc - base[1]) <= 1e-12 * max(1.0, abs(base[1])) and G.shape == base[2].shape and np.allclose(G, base[2], rtol=1e-9, atol=1e-12)):
            v.append(violation("gradient_mismatch", {"object": label, "score": sc, "score_with_documented_values": base[1],
                                                     "max_gradient_difference": float(np.abs(G - base[2]).max()) if G.shape == base[2].shape else None}, **where))
    return {"v": v[:3], "nt": [case], "stats": {"evals": len(objs), "differentiable": 1, "kinks": 0}, "sample": {"target": where["target"], "documented": doc}}


def large_point_case(case):
    """Hundreds to thousands of samples, up to 64 clusters: the score is the same with and without the gradient requested, and the gradient is the
    derivative of the returned score along a few seed-generic logit directions (two-step central differences)."""
    ti, K, n, seed = case
    target, dist = TARGETS[ti]
    cls, ovo = target
    rs = np.random.RandomState(9000 + seed + 13 * K + n)
    X = rs.normal(size=(n, 2))
    kw = {}
    g = _gemini(target, kw)
    Aff = g.compute_affinity(X)
    Z = rs.normal(size=(n, K)) * 1.5
    P = softmax(Z)
    where = dict(target=f"{cls}(ovo={ovo})", dist=dist, K=K, n=n, scale=1.5, affinity="default", epsilon=None)
    v = []
    s0, G = g(P.copy(), Aff, return_grad=True)
    s1 = g(P.copy(), Aff)
    G = np.asarray(G, dtype=float)
    if G.shape != P.shape or not np.isfinite(G).all():
        return {"v": [violation("grad_shape", f"gradient shape {np.shape(G)} / non-finite for predictions {P.shape}", **where)]}
    if not abs(float(s0) - float(s1)) <= 1e-12 * max(1.0, abs(float(s0))):
        v.append(violation("score_depends_on_return_grad", {"with": float(s0), "without": float(s1), "n": n, "K": K}, **where))
    chain = P * (G - (P * G).sum(1, keepdims=True))
    nd = 0
    for t in range(3):
        D = rs.normal(size=Z.shape)
        D /= np.sqrt((D * D).sum())
        ests = [(float(g(softmax(Z + h * D), Aff)) - float(g(softmax(Z - h * D), Aff))) / (2 * h) for h in (1e-3, 1e-3 / 8)]
        an = float((chain * D).sum())
        sc = max(abs(ests[1]), abs(an))
        # piecewise-linear objectives (TV, Wasserstein) with n*K^2 terms cross a few kinks inside any finite step: the two estimates agree to
        # ~1e-3 relative at best, and that is the resolution of the comparison (the changes this explorer is for are errors of order one)
        if abs(ests[0] - ests[1]) > 1e-3 * sc + 1e-8:
            continue
        nd += 1
        if abs(an - ests[1]) > 5e-3 * sc + 1e-7:
            v.append(violation("gradient_mismatch", {"direction": t, "analytic_directional": an, "numeric": ests[1], "n": n, "K": K, "score": float(s0)}, **where))
            break
    return {"v": v[:3], "nt": [case] if nd else [], "stats": {"evals": 1, "differentiable": int(nd > 0), "kinks": int(nd == 0)},
            "sample": {"target": where["target"], "K": K, "n": n}}


TARGETS = [(("KLGEMINI", False), "kl"), (("KLGEMINI", True), "kl"), (("MI", False), "kl"),
           (("TVGEMINI", False), "tv"), (("TVGEMINI", True), "tv"),
           (("HellingerGEMINI", False), "hellinger"), (("HellingerGEMINI", True), "hellinger"),
           (("ChiSquareGEMINI", False), "chi2"), (("ChiSquareGEMINI", True), "chi2"),
           (("MMDGEMINI", False), "mmd"), (("MMDGEMINI", True), "mmd"),
           (("WassersteinGEMINI", False), "wasserstein"), (("WassersteinGEMINI", True), "wasserstein")]


def explorers(tier, seed):
    thorough = tier == "thorough"
    ns = [1, 2, 3, 4, 5] + ([6, 7] if thorough else [])
    Ks = [2, 3, 4] + ([5] if thorough else [])
    ntab = 8 if thorough else 4
    cases = []
    for target, dist in TARGETS:
        if dist == "mmd":
            tags_full, tags_small = ["linear", "pre_indef"], [s[0] for s in aff.KERNEL_SPECS if s[0] not in ("linear", "pre_indef")]
        elif dist == "wasserstein":
            tags_full, tags_small = ["euclidean", "pre_sym"], [s[0] for s in aff.METRIC_SPECS if s[0] not in ("euclidean", "pre_sym")]
        else:
            tags_full, tags_small = ["none"], []
        for n in ns:
            for K in Ks:
                for s in SCALES:
                    for t in range(ntab):
                        for tag in tags_full:
                            cases.append((target, dist, K, n, s, tag, ("gen", t), seed))
        for (n, K) in [(3, 2), (4, 3), (5, 4)]:
            for s_ in (1.0, 3.0, 10.0):
                for eps_ in (0.05, 0.2):
                    for t in range(2):
                        cases.append((target, dist, K, n, s_, tags_full[0], ("gen", t), seed, eps_))
        if dist in ("wasserstein", "tv"):
            for (n, K) in [(3, 2), (4, 3), (5, 3), (4, 4)]:
                for s_ in (1e-6, 1e-9):
                    for t in range(ntab):
                        for tag in tags_full:
                            cases.append((target, dist, K, n, s_, tag, ("gen", t), seed, None, "coincident"))
        for tag in tags_small:
            for (n, K) in [(3, 2), (4, 3)]:
                for s in (1.0, 10.0):
                    cases.append((target, dist, K, n, s, tag, ("gen", 0), seed))
        # region sweep: all n-tuples of interior lattice rows (perturbed), n*K <= 6 (quick) / <= 8 (thorough)
        for (n, K) in [(2, 2), (3, 2), (2, 3)] + ([(4, 2)] if thorough else []):
            nrows = len(list(ref.compositions(K + 2, K)))
            for idx in itertools.product(range(nrows), repeat=n):
                cases.append((target, dist, K, n, 1.0, tags_full[0], ("lat", idx), seed))
    big = []
    for ti, (target, dist) in enumerate(TARGETS):
        shapes_b = {"wasserstein": [(3, 301)], "mmd": [(3, 700), (12, 601)]}.get(dist, [(3, 700), (16, 300), (12, 1000), (32, 1500), (64, 701)] + ([(5, 2049), (40, 3001)] if thorough else []))
        big += [(ti, K, n, seed) for K, n in shapes_b]
    cdoc = [(ti, K, n, seed) for ti in range(len(TARGETS)) for K, n in ((2, 4), (3, 6), (4, 6))]
    return [Explorer("documented_defaults", "props.c02", "documented_defaults_case", cdoc, chunk=8, floor=20,
                     rule="13 class/flag targets: default-constructed object vs the object built with the documented default values written out (read from "
                          "the numpydoc 'default=' lines) vs the registry name, on saturated predictions with entries on both sides of the documented "
                          "clipping precision: same epsilon, same score, same gradient"),
            Explorer("large_points", "props.c02", "large_point_case", big, chunk=1, floor=20, case_timeout=1500,
                     rule="13 class/flag targets on hundreds to thousands of samples and up to 64 clusters: score identical with and without the gradient requested; "
                          "gradient vs two-step central differences of the returned score along three seed-generic logit directions"),
            Explorer("softmax_chain_and_tangents", "props.c02", "grad_case", cases, chunk=8, floor=500,
                     rule="every (class, ovo) x shape (n,K) x logit scale x logit table (seed-generic tables; ALL n-tuples of perturbed "
                          "interior-lattice rows for n*K<=6 to sweep TV sign patterns / OT bases) x affinity menu; "
                          "non-trivial = point judged differentiable by the two-step rule with a non-zero derivative; "
                          "outcomes = distinct (class, shape, differentiability region) observed",
                     bound=f"n in {ns}, K in {Ks}, scales {SCALES}, {ntab} generic tables per shape")]
