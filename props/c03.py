"""
C03 - every training update follows the true gradient of the regularised objective.
Engine E1 x history monitor: model family x GEMINI x solver x every batch size x {plain, mlcl-decorated} x datasets,
and EVERY optimiser step of EVERY epoch of each real fit (optimiser seam).  Oracle: the direction handed to the
optimiser for each parameter block equals  -sum g * dP/dtheta + d(penalty)/dtheta, with g the real GEMINI's
gradient at the model's predictions on the yielded batch (+ the C14 reference constraint term when decorated) and
dP/dtheta obtained by two-step central differences of the model's own forward pass.
"""
import numpy as np

from mc import models as M
from mc import seams
from mc.core import Explorer, violation
from oracles import mlcl as mlref

ASSUMPTIONS = [
    "the GEMINI gradient w.r.t. predictions is taken from the real GEMINI (its exactness is C02's job)",
    "forward-pass derivatives by central differences at two step sizes; parameters sitting on a ReLU kink are skipped and counted",
    "tiny models (n<=6, d<=3, <=5 hidden units, <=3 clusters; n, d, K, hidden pairwise distinct) with learning rates 0.1..0.3 so that parameters move away from initialisation",
]
FAMILIES = ["LinearModel", "RIM", "KernelRIM", "MLPModel", "SparseLinearModel", "SparseMLPModel", "CategoricalModel", "Douglas"]
ML, CL, FACTOR = [(0, 1), (0, 3)], [(2, 3), (2, 4), (1, 4)], 0.7      # hubs on the same side of several pairs, a sample in both lists
BLOCKS = {
    "LinearModel": ["W_", "b_"], "RIM": ["W_", "b_"], "KernelRIM": ["W_", "b_"],
    "MLPModel": ["W1_", "W2_", "b1_", "b2_"], "SparseLinearModel": ["W_", "b_"],
    "SparseMLPModel": ["W1_", "W2_", "W_skip_", "b1_", "b2_"], "CategoricalModel": ["logits_"],
}


INSTANCES = {
    # tag: (class name, constructor kwargs of the model under test, kwargs of the SIBLING used first on the same data, independent affinity of a batch)
    "inst:mmd_rbf": ("MMDGEMINI", dict(kernel="rbf", kernel_params={"gamma": 0.3}), dict(kernel="rbf", kernel_params={"gamma": 2.0}),
                     lambda Xb: __import__("sklearn.metrics", fromlist=["x"]).pairwise_kernels(Xb, metric="rbf", gamma=0.3)),
    "inst:mmd_poly_ovo": ("MMDGEMINI", dict(ovo=True, kernel="poly", kernel_params={"degree": 2, "coef0": 0.5, "gamma": 0.4}),
                          dict(ovo=True, kernel="poly", kernel_params={"degree": 3, "coef0": 0.0, "gamma": 1.0}),
                          lambda Xb: __import__("sklearn.metrics", fromlist=["x"]).pairwise_kernels(Xb, metric="poly", degree=2, coef0=0.5, gamma=0.4)),
    "inst:w_sqeuclid": ("WassersteinGEMINI", dict(metric="euclidean", metric_params={"squared": True}), dict(metric="euclidean", metric_params={"squared": False}),
                        lambda Xb: __import__("sklearn.metrics", fromlist=["x"]).pairwise_distances(Xb, metric="euclidean", squared=True)),
}


def _expected(model, family, rec, params, decorated, Ktrain, dyn=None, indep=None, gem_doc=None):
    Xb, Ab = rec["X"], rec["A"]
    if indep is not None:
        Ab = indep(np.asarray(Xb, dtype=float))       # the affinity the estimator's OWN hyperparameters describe, computed here from the batch
    if dyn is not None and dyn["in_path"]:
        # dynamic mode as CONFIGURED by the user: the affinity of a step is the (linear) kernel of the features selected when the step began,
        # computed here from the batch itself - independent of what the library handed to its objective
        sel = dyn["sel"]
        Ab = np.asarray(Xb)[:, sel] @ np.asarray(Xb)[:, sel].T
    P = model._infer(Xb, retain=False)
    gem = model.get_gemini() if gem_doc is None else gem_doc       # gem_doc: the objective the DOCUMENTATION names (not what the model resolved)
    _, g = gem(P.copy(), Ab, return_grad=True)
    g = np.array(g, dtype=float)
    if decorated:
        g = g + mlref.constraint_term(P, rec["idx"], ML, CL, FACTOR)
    exp, skipped = [], 0
    for w in params:
        e = np.zeros_like(w, dtype=float)
        for idx in np.ndindex(w.shape):
            o = w[idx]
            ests = []
            for h in (1e-5, 1e-5 / 8):
                w[idx] = o + h
                Pp = model._infer(Xb, retain=False)
                w[idx] = o - h
                Pm = model._infer(Xb, retain=False)
                w[idx] = o
                ests.append(-float((g * (Pp - Pm)).sum()) / (2 * h))
            if abs(ests[0] - ests[1]) > 1e-5 * max(abs(ests[1]), 1e-6) + 1e-7 * (1 + np.abs(g).max()):
                e[idx] = np.nan          # kink of the forward pass (ReLU boundary): not comparable
                skipped += 1
            else:
                e[idx] = ests[1]
        exp.append(e)
    if family == "RIM":
        exp[0] = exp[0] + 2 * model.reg * params[0]
    if family == "KernelRIM":
        exp[0] = exp[0] + 2 * model.reg * Ktrain @ params[0]
    return exp, skipped, g, P


def train_case(case):
    family, gemini, solver, bs, decorated, data_id, max_iter, lr, seed = case[:9]
    route = case[9] if len(case) > 9 else "ctor"
    variant = 0
    use_path = False
    if data_id >= 20:            # sparse families trained through path(): the path has its own training loop
        use_path, data_id = True, data_id - 20
    if data_id >= 10:            # Douglas with 3 cut points: several initialisations so that non-involutive cut orders occur
        variant, data_id = data_id - 10, 1
    n, d = (5, 2) if data_id == 0 else (6, 3)
    coinciding = data_id == 2          # all sizes equal: n == d == n_clusters == n_hidden_dim (shape-based dispatch and axis mix-ups of square arrays)
    if coinciding:
        n, d = 4, 4
    X = seams.tiny_data(n, d, seed + data_id)
    kw = dict(solver=solver, max_iter=max_iter, learning_rate=lr, random_state=seed)
    indep = None
    gem_doc = None
    if family not in ("RIM", "KernelRIM"):
        kw["gemini"] = gemini
        if gemini == "documented_none":
            # gemini=None: "If None, the GEMINI will be the MMD OvA" (linear kernel) in the documentation of every generic estimator
            import gemclus.gemini as Gm
            kw["gemini"] = None
            gem_doc = Gm.MMDGEMINI(ovo=False, kernel="linear")
            indep = lambda Xb_: Xb_ @ Xb_.T      # noqa: E731
        if isinstance(gemini, str) and gemini.startswith("inst:"):
            import gemclus.gemini as Gm
            cls_, own_, sib_, indep = INSTANCES[gemini]
            kw["gemini"] = getattr(Gm, cls_)(**{k_: (dict(v_) if isinstance(v_, dict) else v_) for k_, v_ in own_.items()})
            # a sibling candidate (same kernel / metric NAME, same parameter KEYS, other values) works on the same data first, in this process -
            # what a grid search over kernel parameters does for every fold
            sib_kw = dict(kw, gemini=getattr(Gm, cls_)(**sib_))
            try:
                sib = M.make(family, **dict(sib_kw, n_clusters=3 if data_id in (0, 20) else 2, **({"batch_size": bs} if family != "CategoricalModel" else {})))
                sib.fit(X.copy())
                sib.score(X.copy())
            except Exception:  # noqa
                pass
    if family != "CategoricalModel":
        kw["batch_size"] = bs
    # all of n, d, K, hidden pairwise distinct so that an axis mix-up cannot hide behind a square shape
    kw["n_clusters"] = 3 if data_id == 0 else 2
    if family in M.HAS_HIDDEN:
        kw["n_hidden_dim"] = 4 if data_id == 0 else 5
    if coinciding:
        kw["n_clusters"] = 4
        if family in M.HAS_HIDDEN:
            kw["n_hidden_dim"] = 4
    if family == "Douglas":
        kw["n_cuts"] = 1 if data_id == 0 else (3 if variant in (1, 2, 3, 4) else 2)
        kw["random_state"] = seed + variant
        kw["temperature"] = 0.5
        if data_id == 1:
            kw["feature_mask"] = np.array([True, False, True]) if variant != 5 else np.array([False, True, False])   # variant 5: a one-feature tree
    if family in ("SparseLinearModel", "SparseMLPModel"):
        kw["alpha"] = 0.05 if not use_path else 0.3
    dynamic_route = route.startswith("dynamic")
    if dynamic_route:
        kw["dynamic"] = True
        route_after = route
        route = "ctor"
    verbose = route.endswith("+verbose")
    route = route.replace("+verbose", "")
    if verbose:
        kw["verbose"] = True             # a reporting flag: what is computed must not change
    if route != "ctor":
        # non-default regularisation hyperparameters, so that a value remembered from construction time differs from the current one
        if family in ("RIM", "KernelRIM"):
            kw["reg"] = 0.37
        if family in ("SparseMLPModel",):
            kw["M"] = 3.0
    model = M.make(family, _route=route, **kw)
    if decorated:
        from gemclus import add_mlcl_constraint
        model = add_mlcl_constraint(model, ML, CL, FACTOR)
    spy = seams.BatchSpy(model)
    where = dict(route=(route_after if dynamic_route else route) + ("+verbose" if verbose else ""), family=family, gemini=gemini if family not in ("RIM", "KernelRIM") else "mi", solver=solver, batch_size=bs, decorated=decorated,
                 trained_by="path" if use_path else "fit")
    Ktrain = None
    if family == "KernelRIM":
        from sklearn.metrics import pairwise_kernels
        Ktrain = pairwise_kernels(X, metric="linear")
    state = {"step": 0, "v": [], "nt": 0, "skipped": 0, "outs": set(), "noninv": 0}
    dyn = {"sel": np.arange(d), "in_path": False, "calls": [], "since": 0} if dynamic_route else None

    def cb(opt, params, grads):
        rec = spy.current
        step = state["step"]
        state["step"] += 1
        if dyn is not None:
            dyn["since"] += 1
        exp, skipped, g, P = _expected(model, family, rec, params, decorated, Ktrain, dyn, indep, gem_doc)
        state["skipped"] += skipped
        if len(grads) != len(params):
            state["v"].append(violation("wrong_number_of_directions", f"{len(grads)} directions for {len(params)} parameters", **where))
            return
        big = False
        for j, (gr, e) in enumerate(zip(grads, exp)):
            gr = np.asarray(gr, dtype=float)
            if gr.shape != e.shape:
                state["v"].append(violation("direction_shape", f"block {j}: {gr.shape} vs parameter {e.shape}", block=j, **where))
                continue
            mask = ~np.isnan(e)
            if not mask.any():
                continue
            sc = max(np.abs(e[mask]).max(), np.abs(gr[mask]).max())
            tol = 1e-5 * sc + 1e-7 * (1 + np.abs(g).max())
            err = np.abs(gr - e)[mask].max()
            if sc > 1e-8:
                big = True
            if not err <= tol:
                name = BLOCKS.get(family, ["leaf_scores_"] + [f"cut_points[{i}]" for i in range(10)])[j]
                state["v"].append(violation("direction_is_not_the_gradient",
                                            {"step": step, "block": name, "handed_to_optimiser": gr, "expected": e, "max_err": err,
                                             "batch_rows": rec["idx"]}, block=name, **where))
        if big:
            state["nt"] += 1
        if family in M.HAS_HIDDEN:
            state["outs"].add((model._infer(rec["X"], retain=False) > 0).tobytes()[:0] + (np.maximum(rec["X"] @ model.W1_ + model.b1_, 0) > 0).tobytes())
        if family == "Douglas":
            orders = [np.argsort(c) for _, c in model.cut_points_list_]
            state["outs"].add(tuple(tuple(o.tolist()) for o in orders))
            if any((np.argsort(o) != o).any() for o in orders):
                state["noninv"] = 1

    if data_id == 1 and not decorated and bs in (3, None):
        # history: the object was already fitted on other data (other n) before the monitored fit
        model.fit(seams.tiny_data(n + 2, d, seed + 9))
        del spy.log[:]
    import contextlib
    import io
    import gemclus.sparse._base_sparse as _bs
    real_cvs = _bs.compute_val_score

    def cvs_spy(clf, Xa, ya, bsz, gem):
        # two validation calls with no optimiser step in between: the second opens a path step, whose selection is the one in force now
        if dyn["calls"] and dyn["since"] == 0:
            dyn["in_path"] = True
            dyn["sel"] = np.asarray(clf.get_selection()).copy()
        dyn["calls"].append(1)
        dyn["since"] = 0
        return real_cvs(clf, Xa, ya, bsz, gem)
    if dynamic_route and route_after == "dynamic_after_refused_path":
        # event: path(X, K) on the dynamic model with warnings as errors - the documented "dynamic mode is ignored with a precomputed affinity"
        # warning aborts the call; later, a valid dynamic path on the same object
        import warnings
        for mode_ in ("error", "ignore"):
            try:
                with warnings.catch_warnings(), contextlib.redirect_stdout(io.StringIO()):
                    warnings.simplefilter(mode_)
                    model.path(X[:3] if mode_ == "ignore" else X, (X @ X.T)[:3, :3] if mode_ == "ignore" else X @ X.T, alpha_multiplier=2.0 if mode_ == "error" else 4.0,
                               min_features=1, max_patience=1)
            except Exception:  # noqa
                pass
        del spy.log[:]
    if dynamic_route:
        _bs.compute_val_score = cvs_spy
    with seams.optimiser_spy(cb), contextlib.redirect_stdout(io.StringIO()):
        if use_path:
            import warnings
            with warnings.catch_warnings():
                warnings.simplefilter("ignore")
                try:
                    model.path(X, alpha_multiplier=4.0 if not dynamic_route else 2.0, min_features=1, max_patience=1)
                except ValueError as e:
                    if not (dynamic_route and "0 feature(s)" in str(e)):       # KF-C07-1 (reported by C07): the steps before it were judged
                        raise
        else:
            model.fit(X)
    _bs.compute_val_score = real_cvs
    # keep at most one violation per block
    seen, vs = set(), []
    for x in state["v"]:
        k = (x["kind"], x["where"].get("block"))
        if k not in seen:
            seen.add(k)
            vs.append(x)
    return {"v": vs, "nt": [case] if state["nt"] else [], "out": [(family, o) for o in list(state["outs"])[:8]],
            "stats": {"evals": state["step"], "steps_nonzero": state["nt"], "kink_params_skipped": state["skipped"],
                      "douglas_noninvolutive_cut_order": state["noninv"]},
            "sample": {"family": family, "gemini": where["gemini"], "solver": solver, "batch_size": bs, "decorated": decorated,
                       "n": n, "d": d, "steps": state["step"]}}


def explorers(tier, seed):
    thorough = tier == "thorough"
    cases = []
    for family in FAMILIES:
        gems = M.ALL_GEMINIS if family not in ("RIM", "KernelRIM") else ["mi"]
        if not thorough and family not in ("RIM", "KernelRIM"):
            # quick: every family sees every GEMINI family; OvA/OvO variants rotate with the seed and the family
            rot = (seed + FAMILIES.index(family)) % 2
            gems = [g for i, g in enumerate(M.ALL_GEMINIS) if i % 2 == rot or g in ("mi", "wasserstein_ovo")]
        for gemini in gems:
            for solver in ("adam", "sgd"):
                ids = (0, 1, 11, 12, 13, 14, 15) if family == "Douglas" else ((0, 1, 20, 21) if family in ("SparseLinearModel", "SparseMLPModel") else (0, 1))
                for data_id in ids:
                    if data_id >= 20 and solver == "sgd":
                        continue
                    n = 5 if data_id in (0, 20) else 6
                    sizes = [None] if family == "CategoricalModel" else (list(range(1, n + 1)) + [None])
                    if not thorough and family != "CategoricalModel":
                        sizes = [1, 2, n - 1, None] if data_id == 0 else ([3, n, None] if data_id == 1 else [2, None])
                    if data_id >= 20:
                        sizes = [2, None]
                    for bs in sizes:
                        for decorated in (False, True):
                            if thorough:
                                cases.append((family, gemini, solver, bs, decorated, data_id, 6, 0.3, seed))
                            else:
                                cases.append((family, gemini, solver, bs, decorated, data_id, 3, 0.1, seed))
    # scikit-learn protocol routes: the same training monitored on estimators whose hyperparameters arrived through set_params
    for family in FAMILIES:
        gem = "mi" if family in ("RIM", "KernelRIM") else ("mmd_ova" if FAMILIES.index(family) % 2 else "kl_ovo")
        for route in ("set_params", "used_set_params"):
            for solver in ("adam", "sgd"):
                for bs in ([None] if family == "CategoricalModel" else [2, None]):
                    for data_id in ((0, 20) if family in ("SparseLinearModel", "SparseMLPModel") and solver == "adam" else (0,)):
                        cases.append((family, gem, solver, bs, False, data_id, 3, 0.1, seed, route))
    for family in M.GENERIC_GEMINI:
        for bs in ([None] if family == "CategoricalModel" else [2, None]):
            for solver_ in ("adam", "sgd"):
                cases.append((family, "documented_none", solver_, bs, False, 0, 3, 0.1, seed))
    for family in ("LinearModel", "MLPModel", "SparseLinearModel", "CategoricalModel", "Douglas"):
        for inst in INSTANCES:
            for bs in ([None] if family == "CategoricalModel" else [2, None]):
                for data_id in ((0, 20) if family == "SparseLinearModel" else (0,)):
                    cases.append((family, inst, "adam", bs, False, data_id, 3, 0.1, seed))
    for family in ("SparseLinearModel", "SparseMLPModel"):
        for route_ in ("dynamic", "dynamic_after_refused_path"):
            for bs in (2, None):
                for gem in ("mmd_ova", "mmd_ovo"):
                    cases.append((family, gem, "adam", bs, False, 21, 3, 0.1, seed, route_))
    for family in FAMILIES:
        if family == "Douglas":
            continue
        for gem in (["mi"] if family in ("RIM", "KernelRIM") else ["mmd_ovo", "kl_ova", "wasserstein_ova"]):
            for bs in ([None] if family == "CategoricalModel" else [2, 4, None]):
                for decorated in (False, True):
                    cases.append((family, gem, "sgd", bs, decorated, 2, 3, 0.1, seed))
    for family in FAMILIES:
        gem = "mi" if family in ("RIM", "KernelRIM") else ("mmd_ova" if FAMILIES.index(family) % 2 else "tv_ovo")
        for bs in ([None] if family == "CategoricalModel" else [2, None]):
            for decorated in (False, True):
                for data_id in ((0, 20) if family in ("SparseLinearModel", "SparseMLPModel") else (0,)):
                    cases.append((family, gem, "adam", bs, decorated, data_id, 3, 0.1, seed, "ctor+verbose"))
    return [Explorer("every_step_direction", "props.c03", "train_case", cases, chunk=4, floor=200,
                     rule="model family x GEMINI x solver x batch size x {plain, decorated} x 2 datasets; every optimiser step of every epoch is "
                          "checked; non-trivial = fit with at least one step whose direction is non-zero; outcomes = distinct ReLU activation "
                          "patterns / Douglas cut orders seen at the checked steps",
                     require={"douglas_noninvolutive_cut_order": 1},
                     bound="n<=6, d<=3, hidden<=3, K<=3, max_iter 3 (quick) / 6 (thorough); quick rotates OvA/OvO variants and a batch-size subset, thorough is the full product")]
