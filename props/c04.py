"""
C04 - fit succeeds on every valid configuration and yields a coherent model.
Engine E1, deviation-bounded: all 18 estimators x all configurations with one (and, for coupled axes, two) parameters
deviating from a small default, x data shapes x input forms.  Validity filter = documented domain (hand-written axes).
"""
import itertools

import numpy as np

from mc import affinity as aff
from mc import configs as C
from mc import models as M
from mc import seams
from mc.core import Explorer, violation
from oracles import kauri as kref

ASSUMPTIONS = [
    "data shapes (n,d) in {(3,1),(4,2),(6,3)}; at most two axes deviate from the default configuration (pairs only for coupled axes)",
    "haversine only with d=2 (scikit-learn's own domain)",
]
SHAPES = [(3, 1), (4, 2), (6, 3)]
INSTANCES = [["MMD", "rbf_g", False], ["MMD", "pre_indef", True], ["MMD", "callable", True], ["W", "l1", True], ["W", "pre_sym", False],
             ["F", "tv", True], ["F", "chi2", False], ["F", "hellinger", True], ["F", "kl", True]]


def axes_for(name, n, d):
    """axis -> list of valid non-default values (documented domains)."""
    ax = {}
    if name == "Kauri":
        ax["max_clusters"] = [1, 2, 4, n]
        ax["max_depth"] = [1, 2]
        ax["min_samples_split"] = [3, 5]
        ax["min_samples_leaf"] = [1]
        ax["max_features"] = [1, d, d + 3]
        ax["max_leaves"] = [2, 3]
        ax["kernel"] = [s[0] for s in aff.KERNEL_SPECS if s[0] != "linear" and not s[3]] + ["pre_psd"]
        ax["random_state"] = [1, None]
        return ax
    ax["n_clusters"] = [k for k in range(1, n + 1) if k != 3]
    ax["max_iter"] = [1, 5]
    ax["learning_rate"] = [1e-3, 0.9]
    ax["solver"] = ["sgd"]
    ax["random_state"] = [3, None]
    if name not in M.NONPARAMETRIC:
        ax["batch_size"] = list(range(1, n + 2))
    if name in M.GENERIC_GEMINI:
        default = "wasserstein_ova" if name == "Douglas" else "mmd_ova"
        ax["gemini"] = [g for g in M.ALL_GEMINIS if g != default] + [None] + INSTANCES
    if name in ("LinearMMD", "MLPMMD", "SparseLinearMMD", "SparseMLPMMD", "CategoricalMMD"):
        ax["kernel"] = [s[0] for s in aff.KERNEL_SPECS if s[0] != "linear" and not s[3]]
        ax["ovo"] = [True]
    if name in M.HAS_METRIC:
        ax["metric"] = [s[0] for s in C.METRIC_SPECS_EST if s[0] != "euclidean" and (s[0] != "haversine" or d == 2)]
        ax["ovo"] = [True]
    if name in ("RIM", "KernelRIM"):
        ax["reg"] = [0.0, 10.0]
    if name == "KernelRIM":
        ax["base_kernel"] = ["rbf", "rbf_g", "poly_p", "sigmoid_p", "laplacian_g", "cosine", "callable"]
    if name in M.HAS_HIDDEN:
        ax["n_hidden_dim"] = [1, 5]
    if name in M.SPARSE:
        ax["alpha"] = [0.0, 1.0, 50.0]
        if name != "SparseLinearMI":
            ax["dynamic"] = [True]
        ax["groups"] = [[[0]], [list(range(d))]] + ([[[0, 1]], [[1], [0]]] if d >= 2 else [])
        if name in M.HAS_HIDDEN:
            ax["M"] = [0.0, 0.5]
    if name == "Douglas":
        ax["n_cuts"] = [2, 3] if d <= 2 else [2]
        ax["temperature"] = [0.05, 1.0, 10.0]
        ax["feature_mask"] = [[True] + [False] * (d - 1)] + ([[False, True] + [True] * (d - 2)] if d >= 2 else [])
    return ax


COUPLED = [("batch_size", "n_clusters"), ("batch_size", "solver"), ("gemini", "n_clusters"), ("gemini", "batch_size"), ("kernel", "ovo"),
           ("metric", "ovo"), ("metric", "n_clusters"), ("kernel", "batch_size"), ("groups", "alpha"), ("dynamic", "alpha"), ("n_cuts", "feature_mask"),
           ("max_clusters", "max_leaves"), ("max_clusters", "kernel"), ("min_samples_split", "max_depth"), ("ovo", "n_clusters"),
           ("reg", "batch_size"), ("base_kernel", "batch_size"), ("temperature", "gemini")]


def form_of(X, form):
    if form == "fortran":
        return np.asfortranarray(X)
    if form == "int":
        return (np.round(X * 3)).astype(np.int64)
    if form == "float32":
        return X.astype(np.float32)
    if form == "list":
        return X.tolist()
    # valid but degenerate data: a feature that never varies (an unobserved one-hot level), repeated samples, large units
    if form == "zero_column":
        X = X.copy()
        X[:, -1] = 0.0
    if form == "constant_column":
        X = X.copy()
        X[:, 0] = 2.5
    if form == "duplicate_rows":
        X = X.copy()
        X[1] = X[0]
        X[-1] = X[0]
    if form == "scaled_1e3":
        X = X * 1e3
    if form == "strided_view":        # every other row of a larger array with the columns reversed: non-contiguous, negative stride
        big = np.zeros((2 * X.shape[0], X.shape[1]))
        big[::2] = X[:, ::-1]
        X = big[::2, ::-1]
    if form == "readonly":            # the caller's arrays are not writeable (memory-mapped data, arrays shared between processes)
        X = X.copy()
        X.setflags(write=False)
    return X


def fit_case(case):
    if len(case) == 6:          # history axis: the same estimator was first fitted on data of another shape
        return refit_case(case)
    name, spec, shape, form, seed = case
    if form == "missing_matrix":
        return missing_matrix_case(case)
    n, d = shape
    Xc = seams.tiny_data(n, d, seed + 17)
    Xin = form_of(Xc, form)
    # what the estimator is documented to see (float32 data is scored in float32: the affinity of the *given* data)
    Xeff = np.asarray(Xin) if form == "float32" else np.asarray(Xin, dtype=float)
    if form == "numpy_scalars":       # hyperparameters read from an array / a configuration file are numpy scalars, not Python numbers
        spec = {k: (np.int64(v_) if isinstance(v_, int) and not isinstance(v_, bool) else (np.float64(v_) if isinstance(v_, float) else v_)) for k, v_ in spec.items()}
        if name == "Kauri":
            spec.setdefault("max_clusters", np.int64(3))
        else:
            spec.setdefault("n_clusters", np.int64(3))
            spec.setdefault("max_iter", np.int32(3))
            spec.setdefault("learning_rate", np.float32(0.1))
    model, y, expect = C.build(name, spec, Xeff, seed)
    if form == "readonly" and y is not None:
        y = np.array(y, copy=True)
        y.setflags(write=False)
    reconfigured = form == "reconfigured"
    if reconfigured:
        # scikit-learn protocol route: the estimator is built with the default configuration, USED once (fit + score), then given the
        # configuration under test with set_params, exactly what clone().set_params() / a grid search does to a long-lived object
        form = "float64"
        m0, y0, _ = C.build(name, {"random_state": spec.get("random_state", seed)}, Xeff, seed)
        try:
            m0.fit(Xin, y0)
            m0.score(Xin, y0)
        except Exception:  # noqa
            pass
        m0.set_params(**model.get_params(deep=False))
        model = m0
    where = dict(estimator=name, deviating=sorted(k for k in spec if k not in ("random_state",)), n=n, d=d, form="reconfigured" if reconfigured else form)
    for k in ("gemini", "kernel", "metric", "batch_size", "n_clusters", "ovo", "base_kernel"):
        if k in spec:
            where[k] = spec[k] if not isinstance(spec[k], list) else "/".join(map(str, spec[k]))
    v = []
    try:
        model.fit(Xin, y)
    except Exception as e:  # noqa
        import traceback
        return {"v": [violation("fit_raises_on_valid_configuration", {"spec": spec, "error": repr(e)[:300], "trace": traceback.format_exc()[-600:]},
                                exc=type(e).__name__, **where)], "stats": {"evals": 1}}
    if name == "Kauri":
        K = spec.get("max_clusters", 3)
        labs = np.asarray(model.labels_)
        if labs.shape != (n,) or labs.min() < 0 or labs.max() >= K or not hasattr(model, "tree_"):
            v.append(violation("kauri_labels_out_of_range_or_no_tree", {"labels": labs, "max_clusters": K}, **where))
        if not np.array_equal(model.predict(Xin), labs):
            v.append(violation("predict_does_not_reproduce_labels", {"labels": labs}, **where))
        sc = model.score(Xin, y)
        obj = kref.objective(labs, np.asarray(expect["A"], dtype=float))
        if abs(sc - obj) > (1e-5 if form == "float32" else 1e-9) * max(abs(obj), np.abs(expect["A"]).sum() / n):
            v.append(violation("score_is_not_the_objective", {"score": sc, "objective": obj}, **where))
        return {"v": v, "nt": [case] if len(set(labs.tolist())) > 1 else [], "out": [(name, len(set(labs.tolist())))], "stats": {"evals": 1},
                "sample": {"estimator": name, "spec": spec, "shape": shape, "form": form}}
    K = spec.get("n_clusters", 3)
    labs = np.asarray(model.labels_)
    if labs.shape != (n,) or labs.min() < 0 or labs.max() >= K:
        v.append(violation("labels_wrong_shape_or_range", {"labels": labs, "n_clusters": K}, **where))
    P = np.array(model.predict_proba(Xin), copy=True)
    P_again = np.array(model.predict_proba(Xin), copy=True)
    if P.shape == P_again.shape and not np.array_equal(P, P_again, equal_nan=True):
        v.append(violation("predict_proba_changes_between_two_identical_calls", {"first": P, "second": P_again}, **where))
    if P.shape != (n, K) or not np.all(np.isfinite(P)) or np.any(P < 0) or not np.allclose(P.sum(1), 1, atol=1e-9):
        v.append(violation("predict_proba_rows_not_probability_vectors", {"P": P}, **where))
    else:
        pred = model.predict(Xin)
        if not np.array_equal(pred, P.argmax(1)):
            v.append(violation("predict_is_not_argmax_of_predict_proba", {"predict": pred, "argmax": P.argmax(1)}, **where))
        if not np.array_equal(pred, labs):
            v.append(violation("predict_does_not_reproduce_labels", {"predict": pred, "labels_": labs}, **where))
        sc = model.score(Xin, y)
        sc_again = model.score(Xin, y)
        if not sc == sc_again:
            v.append(violation("score_changes_between_two_identical_calls", {"first": sc, "second": sc_again}, **where))
        if not np.array_equal(model.predict(Xin), labs):
            v.append(violation("predict_does_not_reproduce_labels", {"after": "repeated queries"}, **where))
        exp, slack = C.reference_score(expect, np.clip(P, 1e-12, 1 - 1e-12))
        tol32 = 1e-5 * max(1.0, abs(exp)) if form == "float32" else 0.0
        if not abs(sc - exp) <= 1e-8 * max(1.0, abs(exp)) + slack + tol32 + (1e-7 if expect["dist"] == "mmd" else 0):
            v.append(violation("score_is_not_the_gemini_of_predict_proba", {"score": sc, "reference": exp, "dist": expect["dist"], "mode": expect["mode"]}, **where))
    if y is None and form == "float64" and spec.get("random_state", 0) is not None and len(spec) <= 2:
        # y is documented as unused unless an affinity is 'precomputed': a label-like vector in that slot changes nothing
        m2, _, _ = C.build(name, spec, Xeff, seed)
        try:
            m2.fit(Xin, np.arange(n) % 2)
            if not (np.array_equal(m2.labels_, labs) and np.array_equal(m2.predict_proba(Xin), P)):
                v.append(violation("unused_y_changes_the_fitted_model", {"labels_without_y": labs, "labels_with_y": m2.labels_}, **where))
        except Exception as e:  # noqa
            v.append(violation("fit_raises_on_valid_configuration", {"spec": spec, "error": repr(e)[:300], "y": "label vector in the unused y slot"},
                               exc=type(e).__name__, **where))
    if form == "float64" and "batch_size" not in spec:
        # the estimator as scikit-learn's tooling moves it around: a fitted copy (pickle / deepcopy / cloudpickle: what a worker returns, what
        # is stored in a file) answers exactly like the original and keeps its hyperparameters; an UNFITTED copy fits to the same model
        from mc import transport
        k_ = transport.pick((name, sorted(spec.items(), key=str), shape))
        try:
            cp_ = transport.roundtrip(model, k_)
            # (a copy may lay its arrays out differently: the last bit of a matrix product may differ, nothing more)
            ok_ = np.array_equal(cp_.predict(Xin), labs) and np.allclose(cp_.predict_proba(Xin), P, rtol=1e-12, atol=1e-14) \
                and abs(cp_.score(Xin, y) - model.score(Xin, y)) <= 1e-12 * max(1.0, abs(model.score(Xin, y))) + (1e-9 if expect["dist"] == "mmd" else 0.0) \
                and repr(cp_.get_params(deep=False).keys()) == repr(model.get_params(deep=False).keys())
            detail_ = {"transport": k_, "stage": "fitted copy"}
            if ok_ and spec.get("random_state", 0) is not None:
                fresh_, _, _ = C.build(name, spec, Xeff, seed)
                cp2_ = transport.roundtrip(fresh_, k_)
                cp2_.fit(Xin, y)
                ok_ = np.array_equal(cp2_.labels_, labs) and np.allclose(cp2_.predict_proba(Xin), P, rtol=1e-9, atol=1e-12)
                detail_ = {"transport": k_, "stage": "unfitted copy, then fit"}
        except Exception as e:  # noqa
            ok_, detail_ = False, {"transport": k_, "error": repr(e)[:300]}
        if not ok_:
            v.append(violation("transported_estimator_is_not_the_same_model", detail_, **where))
    if getattr(model, "n_iter_", None) != spec.get("max_iter", 3):
        v.append(violation("n_iter_does_not_reflect_max_iter", {"n_iter_": getattr(model, "n_iter_", None)}, **where))
    want = "SGDOptimizer" if spec.get("solver", "adam") == "sgd" else "AdamOptimizer"
    if type(getattr(model, "optimiser_", None)).__name__ != want:
        v.append(violation("optimiser_does_not_reflect_solver", {"optimiser": type(getattr(model, "optimiser_", None)).__name__, "solver": spec.get("solver", "adam")}, **where))
    if name != "KernelRIM":
        fp = model.fit_predict(Xin, y)
        if not np.array_equal(fp, model.labels_):
            v.append(violation("fit_predict_differs_from_labels", {}, **where))
    return {"v": v, "nt": [case] if len(set(labs.tolist())) > 1 else [], "out": [(name, len(set(labs.tolist())), expect["dist"], expect["mode"])],
            "stats": {"evals": 1}, "sample": {"estimator": name, "spec": spec, "shape": shape, "form": form}}


def defaults_case(case):
    """The documentation is the specification of what an omitted hyperparameter means: (a) every signature default equals the documented
    'default=' value; (b) an estimator built with the defaults fits to the same model as the estimator built with the documented values
    written out (only random_state and a small max_iter are given in both, to keep the run short and reproducible)."""
    import inspect
    from mc.defaults import documented_defaults
    name, seed = case
    klass = M.cls(name)
    doc = documented_defaults(klass)
    sig = inspect.signature(klass.__init__).parameters
    where = dict(estimator=name, deviating=[], n=7, d=3, form="documented_defaults")
    v = []
    for k_, val_ in doc.items():
        if k_ in sig and sig[k_].default is not inspect.Parameter.empty and sig[k_].default != val_:
            v.append(violation("default_differs_from_the_documented_value", {"parameter": k_, "documented": val_, "signature": sig[k_].default}, parameter=k_, **where))
    if name in M.SPARSE:
        pdoc = documented_defaults(klass.path)
        psig = inspect.signature(klass.path).parameters
        for k_, val_ in pdoc.items():
            if k_ in psig and psig[k_].default is not inspect.Parameter.empty and psig[k_].default != val_:
                v.append(violation("default_differs_from_the_documented_value", {"method": "path", "parameter": k_, "documented": val_, "signature": psig[k_].default},
                                   parameter="path." + k_, **where))
    X = seams.tiny_data(7, 3, seed + 21)
    fixed = {"random_state": seed} if name == "Kauri" else {"random_state": seed, "max_iter": 2}
    import warnings
    with warnings.catch_warnings():
        warnings.simplefilter("ignore")
        a = klass(**fixed).fit(X)
        b = klass(**dict({k_: v_ for k_, v_ in doc.items() if k_ in sig}, **fixed)).fit(X)
    same = np.array_equal(a.labels_, b.labels_)
    if same and name != "Kauri":
        same = all(np.array_equal(x_, y_) for x_, y_ in zip(a._get_weights(), b._get_weights())) and a.score(X) == b.score(X)
    elif same:
        same = a.score(X) == b.score(X) and a.tree_.thresholds == b.tree_.thresholds
    if not same:
        v.append(violation("default_differs_from_the_documented_value", {"what": "the default-constructed estimator fits differently from the one built with the documented values",
                                                                       "documented": {k_: repr(v_) for k_, v_ in doc.items()}}, parameter="(behaviour)", **where))
    return {"v": v[:4], "nt": [case], "stats": {"evals": 2}, "sample": {"estimator": name, "documented": {k_: repr(v_) for k_, v_ in doc.items()}}}


def missing_matrix_case(case):
    """Kauri(kernel='precomputed') fitted without the matrix: either refused (ValueError / TypeError family), or - the documented fallback -
    a warning and exactly the model of the linear kernel; never a third thing (e.g. the data itself used as a kernel when it is square)."""
    import warnings
    name, spec, shape, form, seed = case
    n, d = shape
    X = seams.tiny_data(n, d, seed + 17)
    from gemclus.tree import Kauri
    kw = dict(max_clusters=spec.get("max_clusters", 3), random_state=seed)
    where = dict(estimator=name, deviating=["kernel"], n=n, d=d, form=form, kernel="precomputed")
    v = []
    for mode in ("ignore", "always"):
        model = Kauri(kernel="precomputed", **kw)
        try:
            with warnings.catch_warnings():
                warnings.simplefilter(mode)
                model.fit(X)
                sc = model.score(X)
        except (ValueError, TypeError):
            continue
        ref_model = Kauri(kernel="linear", **kw).fit(X)
        if not np.array_equal(model.labels_, ref_model.labels_) or not abs(sc - ref_model.score(X)) <= 1e-9 * max(1.0, abs(sc)) \
                or not np.array_equal(model.predict(X), model.labels_):
            v.append(violation("fallback_fit_is_neither_refused_nor_the_documented_linear_kernel_model",
                               {"labels": model.labels_, "linear_kernel_labels": ref_model.labels_, "score": sc, "linear_kernel_score": ref_model.score(X)}, **where))
    return {"v": v[:1], "nt": [case], "stats": {"evals": 2}, "sample": {"estimator": name, "shape": shape, "form": form}}


def refit_case(case):
    """fit on shape A, then the same (valid) configuration is fitted on shape B: the second fit must succeed and be coherent."""
    name, spec, shape_a, shape_b, seed, _ = case
    Xa = seams.tiny_data(shape_a[0], shape_a[1], seed + 17)
    Xb = seams.tiny_data(shape_b[0], shape_b[1], seed + 18)
    model, ya, _ = C.build(name, spec, Xa, seed)
    _, yb, expect = C.build(name, spec, Xb, seed)
    where = dict(estimator=name, deviating=sorted(k for k in spec if k != "random_state"), first_shape=list(shape_a), second_shape=list(shape_b), history="refit")
    v = []
    import copy
    params_before = copy.deepcopy({k: repr(v_) for k, v_ in model.get_params(deep=False).items()})
    try:
        model.fit(Xa, ya)
        model.fit(Xb, yb)
    except Exception as e:  # noqa
        import traceback
        return {"v": [violation("fit_raises_on_valid_configuration", {"spec": spec, "error": repr(e)[:300], "trace": traceback.format_exc()[-500:]},
                                exc=type(e).__name__, **where)], "stats": {"evals": 1}}
    n = shape_b[0]
    labs = np.asarray(model.labels_)
    K = spec.get("max_clusters", 3) if name == "Kauri" else spec.get("n_clusters", 3)
    if labs.shape != (n,) or labs.min() < 0 or labs.max() >= K:
        v.append(violation("labels_wrong_shape_or_range", {"labels": labs}, **where))
    if not np.array_equal(model.predict(Xb), labs):
        v.append(violation("predict_does_not_reproduce_labels", {"labels_": labs}, **where))
    if name != "Kauri":
        P = model.predict_proba(Xb)
        if P.shape != (n, K) or not np.allclose(P.sum(1), 1, atol=1e-9) or np.any(P < 0):
            v.append(violation("predict_proba_rows_not_probability_vectors", {"P": P}, **where))
    params_after = {k: repr(v_) for k, v_ in model.get_params(deep=False).items()}
    if params_after != params_before:
        diff = {k: (params_before[k], params_after[k]) for k in params_before if params_before[k] != params_after[k]}
        v.append(violation("fit_modified_constructor_hyperparameters", {"changed": diff}, **where))
    return {"v": v, "nt": [case], "stats": {"evals": 1}, "sample": {"estimator": name, "spec": spec, "first": shape_a, "then": shape_b}}


def explorers(tier, seed):
    thorough = tier == "thorough"
    cases = []
    for name in M.ESTIMATORS:
        for shape in SHAPES:
            n, d = shape
            ax = axes_for(name, n, d)
            base = {"random_state": seed}
            if shape == SHAPES[-1]:
                # coinciding sizes: n == d, and n == d == n_clusters (shape-based dispatch cannot tell samples from features there)
                for sq, kk in (((4, 4), 3), ((4, 4), 4), ((3, 3), 3), ((5, 5), 2)):
                    s_ = dict(base)
                    s_["max_clusters" if name == "Kauri" else "n_clusters"] = kk
                    cases.append((name, s_, sq, "float64", seed))
            for form in ("float64", "fortran", "int", "float32", "list", "zero_column", "constant_column", "duplicate_rows", "scaled_1e3", "readonly", "numpy_scalars", "strided_view"):
                cases.append((name, dict(base), shape, form, seed))
            if name in M.SPARSE and d >= 2:
                # a never-varying feature receives an exactly zero gradient: with a strong penalty its weights (alone, as a singleton group,
                # or inside a declared group) are shrunk to exactly zero and stay there for the remaining epochs
                for var in ({"alpha": 50.0}, {"alpha": 50.0, "groups": [[0, 1]] if d > 2 else [[0]]}, {"alpha": 50.0, "groups": [[d - 1]]},
                            {"alpha": 0.5, "max_iter": 12, "groups": [[0], [d - 1]]}, {"alpha": 50.0, "solver": "sgd"}):
                    cases.append((name, dict(base, **var), shape, "zero_column", seed))
            for a, vals in ax.items():
                for val in vals:
                    s = dict(base)
                    s[a] = val
                    if a == "n_clusters" and name in M.SPARSE and False:
                        pass
                    cases.append((name, s, shape, "float64", seed))
                    if shape == SHAPES[-1]:
                        cases.append((name, s, shape, "reconfigured", seed))
                        cases.append((name, s, shape, "readonly", seed))
                        cases.append((name, s, shape, "numpy_scalars", seed))
            pairs = [(a, b) for a, b in COUPLED if a in ax and b in ax]
            if thorough:
                pairs = list(itertools.combinations(ax, 2))
            for a, b in pairs:
                for va in ax[a]:
                    for vb in ax[b]:
                        s = dict(base)
                        s[a], s[b] = va, vb
                        if name == "Kauri" and 2 * s.get("min_samples_leaf", 1) > s.get("min_samples_split", 2):
                            continue
                        cases.append((name, s, shape, "float64", seed))
    for shape in SHAPES + [(4, 4), (5, 5), (3, 3)]:
        for K in (2, 3):
            cases.append(("Kauri", {"max_clusters": K}, shape, "missing_matrix", seed))
    # history axis: fit on one shape, then on a narrower / wider / shorter one (default configuration and group/mask variants)
    for name in M.ESTIMATORS:
        variants = [{}]
        if name in M.SPARSE:
            variants += [{"groups": [[0]]}, {"groups": [[0, 1]]}, {"alpha": 1.0}]
        if name == "Douglas":
            variants += [{"n_cuts": 2}]
        if name == "Kauri":
            variants += [{"max_features": 1}, {"max_leaves": 3}]
        for var in variants:
            for a, b in (((6, 3), (4, 2)), ((4, 2), (6, 3)), ((6, 3), (3, 3)), ((3, 2), (6, 2))):
                cases.append((name, dict({"random_state": seed}, **var), a, b, seed, "refit"))
    return [Explorer("documented_defaults", "props.c04", "defaults_case", [(name, seed) for name in M.ESTIMATORS], chunk=2, floor=18,
                     rule="18 estimators (+ path() of the 5 sparse ones): every signature default equals the numpydoc 'default=' value, and the estimator built with "
                          "the defaults fits to the same model as the one built with the documented values written out"),
            Explorer("valid_configurations", "props.c04", "fit_case", cases, chunk=16, floor=500, case_timeout=600,
                     rule="all 18 estimators x data shapes {(3,1),(4,2),(6,3)} x every single-axis deviation from the default over the documented axes "
                          "(13 GEMINI names + instances + None, solver, every batch size 1..n+1, every n_clusters 1..n, kernel/metric menus incl. "
                          "callable/precomputed, ovo, reg, groups, alpha, M, dynamic, n_cuts, temperature, feature_mask, tree limits) + two-axis deviations on "
                          "coupled axes (all pairs in thorough) + every single-axis configuration also reached by set_params on a used default estimator + input forms {C, Fortran, int64, float32, nested list, zero/constant column, duplicate rows, x1000} + refits of the same configuration on narrower / wider / shorter data; non-trivial = fit ending with >=2 clusters",
                     bound="deviation bound 1 everywhere, 2 on coupled axes (quick) / all axis pairs (thorough)")]
