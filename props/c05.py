"""
C05 - proximal operators return the exact minimiser of their penalised problem.
Bounded-exhaustive enumeration (engine E1) of weight rows over a dyadic value menu (ties and zero rows
included), all thresholds/hierarchy constants of a menu, all set partitions of the features as groups,
plus seed-generic real entries; oracle = oracles/prox.py.
"""
import itertools

import numpy as np

from mc.core import Explorer, violation
from oracles import prox as ref

MENU = [-2.0, -1.0, -0.5, 0.0, 0.5, 1.0, 2.0]
SMALL = [-1.0, 0.0, 0.5, 2.0]
ALPHAS = [0.0, 0.25, 1.0, 3.0]
MS = [0.0, 0.5, 1.0, 10.0]
ASSUMPTIONS = [
    "value slots are filled from a dyadic menu (exhaustively) and from seed-generic reals; other real values are not explored",
    "hierarchical operator: rows with zero skip weights are explored only with zero hidden weights and alpha>0 (property scope)",
]


def _P():
    from gemclus.sparse import _prox_grad
    return _prox_grad


def _rows(menu, k):
    return np.array(list(itertools.product(menu, repeat=k)), dtype=float).reshape(-1, k)


def _dtype_variants(op, call, mats, ctx):
    """The storage dtype of the weights is not part of the problem: integer-valued weights stored as int64 / int32 and the same weights
    stored as float32 give the minimiser computed for the float64 copy (exactly for integers, to single precision for float32)."""
    ints = [np.round(2 * np.asarray(m)).astype(np.int64) for m in mats]
    try:
        ro = [m.astype(float) for m in ints]
        for m in ro:
            m.setflags(write=False)
        with np.errstate(all="ignore"):
            call(*ro)                      # read-only weights are read, never written (the result is a new array)
        with np.errstate(all="ignore"):
            ref_ = call(*[m.astype(float) for m in ints])
        ref_ = ref_ if isinstance(ref_, tuple) else (ref_,)
        out = []
        for dt, tol in ((np.int64, 1e-12), (np.int32, 1e-12), (np.float32, 1e-5)):
            with np.errstate(all="ignore"):
                got = call(*[m.astype(dt) for m in ints])
            got = got if isinstance(got, tuple) else (got,)
            for a, b in zip(got, ref_):
                if np.shape(a) != np.shape(b) or not np.allclose(np.asarray(a, dtype=float), b, rtol=tol, atol=tol, equal_nan=True):
                    out.append(violation("result_depends_on_storage_dtype", dict(ctx, dtype=str(np.dtype(dt)), float64_result=b[:3], got=np.asarray(a)[:3]), op=op))
                    break
        return out[:1]
    except Exception as e:  # noqa
        return [violation("result_depends_on_storage_dtype", dict(ctx, error=repr(e)[:200]), op=op)]


# ------------------------------------------------------------------ group lasso, feature rows
def gl_rows(case):
    _, K, alpha, generic_seed = case
    P = _P()
    if generic_seed is None:
        W = _rows(MENU, K)
    else:
        W = np.random.RandomState(generic_seed).normal(size=(400, K)) * 1.5
    out = P.linear_prox_grad(W.copy(), alpha)
    v, nt = [], 0
    outF = P.linear_prox_grad(np.asfortranarray(W), alpha)
    big = np.zeros((2 * len(W), 2 * K))
    big[::2, ::2] = W
    outV = P.linear_prox_grad(big[::2, ::2], alpha)
    # same values whatever the layout (summation order may differ in the last bits for long rows; exact zeros must be the same zeros)
    def _same(a, b):
        return a.shape == b.shape and np.array_equal(a == 0, b == 0) and np.allclose(a, b, rtol=1e-12, atol=0)
    if not (_same(out, outF) and _same(out, outV)):
        v.append(violation("result_depends_on_memory_layout", {"K": K, "alpha": alpha}, op="linear_prox_grad"))
    if out.shape != W.shape:
        return {"v": [violation("shape", f"{out.shape} vs {W.shape}", op="linear_prox_grad")]}
    v.extend(_dtype_variants("linear_prox_grad", lambda A: P.linear_prox_grad(A, alpha), [W], {"K": K, "alpha": alpha}))
    for i in range(len(W)):
        z, must_zero = ref.group_lasso_row(W[i], alpha)
        # also as a one-row matrix (d=1)
        single = P.linear_prox_grad(W[i:i + 1].copy(), alpha)[0]
        for tag, got in (("batch", out[i]), ("single", single)):
            if must_zero:
                ok = bool(np.all(got == 0.0))
            else:
                ok = bool(np.all(np.abs(got - z) <= 1e-12 * max(1.0, np.abs(W[i]).max())))
            if not ok:
                v.append(violation("group_lasso_minimiser", {"w": W[i], "alpha": alpha, "got": got, "expected": z, "call": tag},
                                   op="linear_prox_grad", exact_zero_expected=must_zero))
        if not must_zero and alpha > 0:
            nt += 1
    return {"v": v[:20], "stats": {"evals": 2 * len(W), "nt_distinct": nt}, "out": [(K, alpha, out.tobytes())],
            "sample": {"op": "linear_prox_grad", "K": K, "alpha": alpha, "rows": len(W), "first_rows": W[:3]}}


# ------------------------------------------------------------------ group lasso, feature groups
def gl_groups(case):
    _, d, K, alpha, part, generic_seed = case
    P = _P()
    v, nt, n = [], 0, 0
    if generic_seed is None:
        mats = (np.array(m, dtype=float).reshape(d, K) for m in itertools.product(SMALL, repeat=d * K))
    else:
        rs = np.random.RandomState(generic_seed)
        mats = (rs.normal(size=(d, K)) * 1.5 for _ in range(60))
    for W in mats:
        n += 1
        if n <= 3:
            v.extend(_dtype_variants("group_linear_prox_grad", lambda A: P.group_linear_prox_grad([list(g) for g in part], A, alpha), [W + 0.5 * n],
                                     {"groups": part, "alpha": alpha}))
        out = P.group_linear_prox_grad([list(g) for g in part], W.copy(), alpha)
        for g in part:
            z, must_zero = ref.group_lasso_row(W[list(g)].reshape(-1), alpha)
            got = out[list(g)].reshape(-1)
            ok = bool(np.all(got == 0.0)) if must_zero else bool(np.all(np.abs(got - z) <= 1e-12 * max(1.0, np.abs(W).max())))
            if not ok:
                v.append(violation("group_lasso_minimiser", {"W": W, "group": g, "alpha": alpha, "got": got, "expected": z},
                                   op="group_linear_prox_grad", exact_zero_expected=must_zero))
            if not must_zero and alpha > 0 and len(g) > 1:
                nt += 1
    return {"v": v[:20], "stats": {"evals": n}, "nt": [(d, K, alpha, part)] if nt else [],
            "sample": {"op": "group_linear_prox_grad", "d": d, "K": K, "alpha": alpha, "groups": part}}


# ------------------------------------------------------------------ hierarchical prox, rows
def _check_hier(P, V, U, alpha, M, op, call):
    with np.errstate(all="ignore"):
        beta, theta = call(V.copy(), U.copy())
    v = []
    if beta.shape != V.shape or theta.shape != U.shape:
        return [violation("shape", f"{beta.shape},{theta.shape}", op=op)], 0
    fmin, rbest = ref.hier_fmin(V, U, alpha, M)
    obj = ref.hier_objective(beta, theta, V, U, alpha)
    gap = ref.hier_feasible_gap(beta, theta, M)
    nb = np.sqrt((beta * beta).sum(1))
    finite = np.isfinite(beta).all(1) & np.isfinite(theta).all(1)
    infeasible = gap > 1e-12 * M * nb
    subopt = ~(obj <= fmin + 1e-9 * np.maximum(1.0, np.abs(fmin)))
    bad = np.where(~finite | infeasible | subopt)[0]
    for i in bad[:10]:
        kind = "hier_nonfinite" if not finite[i] else ("hier_infeasible" if infeasible[i] else "hier_suboptimal")
        v.append(violation(kind, {"v": V[i], "u": U[i], "alpha": alpha, "M": M, "beta": beta[i], "theta": theta[i],
                                  "objective": obj[i], "reference_min": fmin[i], "feasibility_gap": gap[i]}, op=op))
    nontrivial = int(((rbest > 0) & (np.abs(theta) < np.abs(U) - 1e-12).any(1)).sum())   # shrunk and clipped
    if len(bad) > 10:
        v.append(violation("hier_many", f"{len(bad)} rows fail in this shard", op=op))
    return v, nontrivial


def _in_scope(V, U, alpha):
    vz = (V == 0).all(1)
    uz = (U == 0).all(1)
    return ~vz | (uz & (alpha > 0))


def hier_rows(case):
    _, K, h, alpha, M, first, generic_seed = case
    P = _P()
    if generic_seed is None:
        Vs = _rows(MENU, K)
        if first is not None:
            Vs = Vs[Vs[:, 0] == first]
        Us = _rows(MENU, h)
        V = np.repeat(Vs, len(Us), axis=0)
        U = np.tile(Us, (len(Vs), 1))
    else:
        rs = np.random.RandomState(generic_seed)
        rows_ = 3000 if K * h <= 64 else 300          # the reference holds rows x candidates x h numbers
        V = rs.normal(size=(rows_, K)) * 1.5
        U = rs.normal(size=(rows_, h)) * 1.5
    keep = _in_scope(V, U, alpha)
    V, U = V[keep], U[keep]
    v, nt = _check_hier(P, V, U, alpha, M, "mlp_prox_grad", lambda a, b: P.mlp_prox_grad(a, b, alpha, M))
    if len(V):
        v.extend(_dtype_variants("mlp_prox_grad", lambda A, B: P.mlp_prox_grad(A, B, alpha, M), [V[:200], U[:200]], {"alpha": alpha, "M": M, "K": K, "h": h}))
    vF, _ = _check_hier(P, V, U, alpha, M, "mlp_prox_grad[fortran]", lambda a, b: P.mlp_prox_grad(np.asfortranarray(a), np.asfortranarray(b), alpha, M))
    v.extend(vF)
    # one-row calls (d=1 shape) on a deterministic subset
    step = max(1, len(V) // 64)
    for i in range(0, len(V), step):
        vv, _ = _check_hier(P, V[i:i + 1], U[i:i + 1], alpha, M, "mlp_prox_grad[d=1]",
                            lambda a, b: P.mlp_prox_grad(a, b, alpha, M))
        v.extend(vv)
    return {"v": v[:20], "stats": {"evals": len(V), "nt_distinct": nt},
            "sample": {"op": "mlp_prox_grad", "K": K, "h": h, "alpha": alpha, "M": M, "rows": len(V),
                       "first": {"v": V[0], "u": U[0]} if len(V) else None}}


def hier_groups(case):
    _, d, K, h, alpha, M, part, generic_seed = case
    P = _P()
    groups = [list(g) for g in part]
    v, nt, n = [], 0, 0
    if generic_seed is None:
        mats = itertools.product(SMALL, repeat=d * (K + h))
    else:
        rs = np.random.RandomState(generic_seed)
        mats = (rs.normal(size=d * (K + h)) * 1.5 for _ in range(40))
    for m in mats:
        m = np.array(m, dtype=float)
        Ws, W1 = m[:d * K].reshape(d, K), m[d * K:].reshape(d, h)
        # scope: every group must have non-zero skip weights (or be entirely zero with alpha>0)
        Vg = [Ws[g].reshape(1, -1) for g in groups]
        Ug = [W1[g].reshape(1, -1) for g in groups]
        if not all(_in_scope(a, b, alpha)[0] for a, b in zip(Vg, Ug)):
            continue
        n += 1
        if n <= 3:
            v.extend(_dtype_variants("group_mlp_prox_grad", lambda A, B: P.group_mlp_prox_grad(groups, A, B, alpha, M), [Ws + 0.5 * n, W1 - 0.5 * n],
                                     {"groups": part, "alpha": alpha, "M": M}))
        with np.errstate(all="ignore"):
            bs, th = P.group_mlp_prox_grad(groups, Ws.copy(), W1.copy(), alpha, M)
        for g, a, b in zip(groups, Vg, Ug):
            beta, theta = bs[g].reshape(1, -1), th[g].reshape(1, -1)
            fmin, rbest = ref.hier_fmin(a, b, alpha, M)
            obj = ref.hier_objective(beta, theta, a, b, alpha)
            gap = ref.hier_feasible_gap(beta, theta, M)
            nb = np.sqrt((beta * beta).sum())
            if not (np.isfinite(beta).all() and np.isfinite(theta).all()) or gap[0] > 1e-12 * M * nb \
                    or not obj[0] <= fmin[0] + 1e-9 * max(1.0, abs(fmin[0])):
                v.append(violation("hier_group_minimiser", {"W_skip": Ws, "W1": W1, "group": g, "alpha": alpha, "M": M,
                                                            "beta": beta, "theta": theta, "objective": obj[0],
                                                            "reference_min": fmin[0], "gap": gap[0]},
                                   op="group_mlp_prox_grad"))
            if len(g) > 1 and rbest[0] > 0:
                nt += 1
    return {"v": v[:20], "stats": {"evals": n}, "nt": [(d, K, h, alpha, M, part)] if nt else [],
            "sample": {"op": "group_mlp_prox_grad", "d": d, "K": K, "h": h, "alpha": alpha, "M": M, "groups": part}}


def estimator_step_case(case):
    """The operators as the sparse estimators apply them: every shrinkage step of a real fit / path is the minimiser for the DECLARED groups with
    threshold alpha x learning rate - whichever way the estimator got its hyperparameters (constructor, set_params on a default or used object,
    clone + set_params as in a grid search).  Reuses the step monitor of C06."""
    from props import c06
    r = c06.sparse_case(case)
    v = []
    for x in r.get("v", []):
        if x["kind"] in ("shrinkage_is_not_prox_of_alpha_times_lr", "shrinkage_touches_other_weights"):
            v.append(violation("estimator_step_is_not_the_minimiser", x["detail"], op="estimator:" + str(case[0]), route=case[9] if len(case) > 9 else "ctor"))
    return {"v": v[:2], "nt": [repr(case)], "stats": {"evals": r.get("stats", {}).get("steps_checked", 1)}, "sample": {"case": repr(case)[:300]}}


def explorers(tier, seed):
    thorough = tier == "thorough"
    gseed = 1000 + seed
    Kmax = 4 if thorough else 3
    c1 = [("gl", K, a, None) for K in range(1, Kmax + 1) for a in ALPHAS] + \
         [("gl", K, a, gseed + K) for K in (1, 2, 3, 5) for a in (0.3, 1.7)]
    parts = {d: [tuple(tuple(g) for g in p) for p in ref.set_partitions(range(d))] for d in (2, 3, 4)}
    c2 = []
    for d, K in ([(2, 1), (2, 2), (3, 1), (3, 2), (4, 1)] + ([(4, 2)] if thorough else [])):
        for a in ALPHAS:
            for p in parts[d]:
                c2.append(("glg", d, K, a, p, None))
    c2 += [("glg", 4, 3, a, p, gseed) for a in (0.3, 1.7) for p in parts[4]]
    c3 = []
    shapes = [(1, 1), (1, 2), (2, 1), (2, 2), (1, 3), (2, 3), (3, 1), (3, 2), (3, 3)]
    if thorough:
        shapes += [(1, 4), (2, 4), (3, 4), (4, 1), (4, 2)]
    for K, h in shapes:
        for a in ALPHAS:
            for M in MS:
                if K >= 3 and h >= 3:
                    c3 += [("hier", K, h, a, M, f, None) for f in MENU]
                else:
                    c3.append(("hier", K, h, a, M, None, None))
    c3 += [("hier", K, h, a, M, None, gseed + 7 * K + h) for K in (1, 2, 4) for h in (1, 3, 5) for a in (0.0, 0.3, 1.7)
           for M in (0.0, 0.7, 10.0)]
    c4 = []
    for d, K, h in ([(2, 1, 1), (3, 1, 1)] + ([(2, 2, 1), (2, 1, 2)] if thorough else [])):
        for a in ALPHAS:
            for M in MS:
                for p in parts[d]:
                    c4.append(("hierg", d, K, h, a, M, p, None))
    c4 += [("hierg", 4, 2, 3, a, M, p, gseed) for a in (0.3, 1.7) for M in (0.7, 10.0) for p in parts[4]]
    # large shapes (vectorised / blocked rewrites only differ from the loop version beyond toy sizes): many clusters, hidden units, features,
    # and partitions into non-contiguous groups of uneven sizes given in shuffled order
    def big_partition(d, t):
        rs_ = np.random.RandomState(gseed + d + t)
        order = rs_.permutation(d)
        cuts = np.sort(rs_.choice(np.arange(1, d), size=max(1, d // 6), replace=False))
        groups = [tuple(int(i) for i in g) for g in np.split(order, cuts)]
        rs_.shuffle(groups)
        return tuple(groups)
    c1 += [("gl", K, a, gseed + K) for K in (40, 300) for a in (0.0, 0.3, 1.7, 12.0)]
    c2 += [("glg", d, K, a, big_partition(d, t), gseed + t) for d, K in ((24, 3), (60, 8), (150, 2)) for a in (0.0, 0.3, 1.7, 6.0) for t in range(2)]
    c3 += [("hier", K, h, a, M, None, gseed + 7 * K + h) for K, h in ((30, 50), (3, 200), (64, 2)) for a in (0.0, 0.3, 1.7) for M in (0.0, 0.7, 10.0)]
    c4 += [("hierg", d, K, h, a, M, big_partition(d, t), gseed + t) for d, K, h in ((24, 3, 5), (60, 4, 20)) for a in (0.3, 1.7) for M in (0.7, 10.0) for t in range(2)]
    c5 = []
    for name_, gem_ in (("SparseLinearModel", "mi"), ("SparseLinearMMD", "mmd_ova"), ("SparseLinearMI", "mi"), ("SparseMLPModel", "mi"), ("SparseMLPMMD", "mmd_ovo")):
        for groups_ in (None, ((0, 1),), ((0, 2), (1, 3)), ((3, 1, 0),)):
            for alpha_ in (0.05, 0.5):
                for route_ in ("ctor", "set_params", "used_set_params", "regrouped"):
                    for mode_ in ("fit", "path"):
                        c5.append((name_, gem_, alpha_, 0.5 if "MLP" in name_ else None, groups_, None, False, mode_, seed, route_))
    menu = f"entries in {MENU}"
    return [
        Explorer("operators_inside_the_estimators", "props.c05", "estimator_step_case", c5, chunk=4, floor=50, case_timeout=600,
                 rule="5 sparse estimators x {no groups, one pair, two pairs, a triple} x alpha x {fit, path} x how the hyperparameters arrived (constructor, "
                      "set_params on a default object, on a used object, after training with another group structure): every shrinkage step is the "
                      "reference minimiser for the declared groups with threshold alpha x learning rate"),
        Explorer("grouplasso_rows", "props.c05", "gl_rows", c1, chunk=1, floor=50,
                 rule=f"linear_prox_grad on ALL rows with {menu} of length K<={Kmax} x alpha in {ALPHAS}, batch and one-row calls, "
                      "plus seed-generic rows; non-trivial = row shrunk but not zeroed (alpha>0)",
                 bound=f"K<={Kmax}"),
        Explorer("grouplasso_groups", "props.c05", "gl_groups", c2, chunk=2, floor=10,
                 rule=f"group_linear_prox_grad on ALL matrices with entries in {SMALL}, d<=4 features, all set partitions of the "
                      "features (Bell(d)) x alpha menu; non-trivial = (shape, alpha, partition) where a group of >=2 features is shrunk but kept",
                 bound="d<=4, K<=2(3)"),
        Explorer("hier_rows", "props.c05", "hier_rows", c3, chunk=1, floor=1000,
                 rule=f"mlp_prox_grad on ALL (skip row, hidden row) pairs with {menu}, K<=3(4) x h<=3(4), alpha in {ALPHAS}, M in {MS} "
                      "restricted to the property's scope, batch and one-row calls, plus seed-generic rows; "
                      "non-trivial = optimum has beta != 0 and at least one hidden weight clipped",
                 bound="K,h<=3 quick / <=4 thorough"),
        Explorer("hier_groups", "props.c05", "hier_groups", c4, chunk=2, floor=10,
                 rule=f"group_mlp_prox_grad on ALL (W_skip, W1) with entries in {SMALL}, d<=3, all set partitions x alpha x M menus, "
                      "plus seed-generic d=4; non-trivial = configuration in which a group of >=2 features keeps a non-zero optimum",
                 bound="d<=3"),
    ]
