"""
C06 - unselected features are inert; selection reads exact zeros; groups stay whole; shrinkage = prox(alpha * lr).
Engine E1 with a history monitor: sparse estimator x GEMINI x alpha x M x group structure (ALL set partitions of 4
features + partial lists) x batch size x dynamic x {fit, path}; observation points = after every optimiser step
(shrinkage rule), after the fit, after each path step, after weight restoration.
"""
import numpy as np

from mc import models as M
from mc import seams
from mc.core import Explorer, violation
from oracles import prox as pref

ASSUMPTIONS = ["d=4 features, n=8 samples, <=3 hidden units; alpha in {0,0.05,0.5,5} with learning rate 0.1 so that features die within a few steps"]
D = 4
PARTIAL = [((0, 1),), ((2, 3), (0,)), ((1, 3),), ((0, 1, 2),)]


def _sel_matrix(model):
    return model.W_skip_ if hasattr(model, "W_skip_") else model.W_


def _check_point(model, X, declared, label, where, v):
    W = _sel_matrix(model)
    nz = [i for i in range(W.shape[0]) if np.any(W[i] != 0.0)]
    sel = list(map(int, model.get_selection()))
    if sel != nz:
        v.append(violation("selection_is_not_the_nonzero_rows", {"at": label, "get_selection": sel, "nonzero_rows": nz, "W": W}, at=label, **where))
    if int(model._n_selected_features()) != len(nz):
        v.append(violation("n_selected_features_wrong", {"at": label, "n": int(model._n_selected_features()), "nonzero_rows": nz}, at=label, **where))
    base = model.predict_proba(X)
    for f in range(W.shape[0]):
        if f in nz:
            continue
        if hasattr(model, "W1_") and np.any(model.W1_[f] != 0.0):
            v.append(violation("first_layer_row_of_unselected_feature_nonzero", {"at": label, "feature": f, "W1_row": model.W1_[f]}, at=label, **where))
        for delta in (1.0, -7.5, 1e6):
            X2 = X.copy()
            X2[:, f] += delta
            if not np.array_equal(model.predict_proba(X2), base):
                v.append(violation("unselected_feature_changes_predictions", {"at": label, "feature": f, "delta": delta}, at=label, **where))
                break
    if declared is not None:
        for g in declared:
            ins = [i in nz for i in g]
            if any(ins) and not all(ins):
                v.append(violation("group_partially_selected", {"at": label, "group": list(g), "selected": nz}, at=label, **where))
    return len(nz)


def sparse_case(case):
    name, gemini, alpha, Mc, groups, bs, dynamic, mode, seed = case[:9]
    route = case[9] if len(case) > 9 else "ctor"
    n = 8
    rs = np.random.RandomState(80_000 + seed)
    X = np.concatenate([rs.normal(size=(n, 2)) + np.array([[3, 0]]) * (np.arange(n)[:, None] % 2), rs.normal(size=(n, 2))], axis=1)
    declared = None if groups is None else [list(g) for g in groups]
    kw = dict(n_clusters=2, alpha=alpha, max_iter=3, learning_rate=0.1, batch_size=bs, random_state=seed, groups=declared)
    if name in ("SparseLinearModel", "SparseMLPModel"):
        kw["gemini"] = gemini
        kw["dynamic"] = dynamic
    elif name != "SparseLinearMI":
        kw["dynamic"] = dynamic
    if name in M.HAS_HIDDEN:
        kw["M"] = Mc
        kw["n_hidden_dim"] = 3
    if route == "regrouped":
        # history: the same object was first trained with ANOTHER group structure (and other alpha), then given the declared one by set_params
        alt = [[1, 2]] if declared != [[1, 2]] else [[0, 3]]
        model = M.make(name, **dict(kw, groups=alt, alpha=0.3))
        try:
            import warnings
            with warnings.catch_warnings():
                warnings.simplefilter("ignore")
                model.fit(X)
                if mode == "path":
                    model.path(X, alpha_multiplier=3.0, min_features=1, max_patience=1)
        except Exception:  # noqa
            pass
        model.set_params(groups=declared, alpha=alpha)
    else:
        model = M.make(name, _route=route, **kw)
    where = dict(model=name, gemini=gemini, alpha=alpha, M=Mc, groups=str(groups), batch_size=bs, dynamic=dynamic, mode=mode, route=route)
    v = []
    state = {"snap": None, "steps": 0, "shrunk": 0}

    def cb(opt, params, grads):
        pass

    def after(opt, params):
        state["snap"] = [p.copy() for p in params]
    cb.after = after
    real_uw = model._update_weights

    used_alpha = []            # (phase, alpha in force when the shrinkage was applied); phase = "initial" or the index of the path step

    def uw(weights, gradients):
        real_uw(weights, gradients)
        snap = state["snap"]
        state["steps"] += 1
        state["since_call"] = state.get("since_call", 0) + 1
        used_alpha.append((state.get("phase", "initial"), float(model.alpha)))
        thr = model.alpha * model.optimiser_.learning_rate
        names = ["W1_", "W2_", "W_skip_", "b1_", "b2_"] if hasattr(model, "W_skip_") else ["W_", "b_"]
        now = dict(zip(names, model._get_weights()))
        before = dict(zip(names, snap))
        grp = [[i] for i in range(D)] if declared is None else declared + [[i] for i in range(D) if not any(i in g_ for g_ in declared)]
        if not hasattr(model, "W_skip_"):
            for g in grp:
                z, must_zero = pref.group_lasso_row(before["W_"][g].reshape(-1), thr)
                got = now["W_"][g].reshape(-1)
                ok = bool(np.all(got == 0.0)) if must_zero else bool(np.allclose(got, z, rtol=1e-12, atol=1e-15))
                if not ok:
                    v.append(violation("shrinkage_is_not_prox_of_alpha_times_lr", {"group": g, "before": before["W_"][g], "after": now["W_"][g],
                                                                                   "threshold": thr, "expected": z}, **where))
                if not must_zero and thr > 0:
                    state["shrunk"] += 1
            if not np.array_equal(now["b_"], before["b_"]):
                v.append(violation("shrinkage_touches_other_weights", {"block": "b_"}, **where))
        else:
            for g in grp:
                a = before["W_skip_"][g].reshape(1, -1)
                b = before["W1_"][g].reshape(1, -1)
                if np.all(a == 0) and not (np.all(b == 0) and thr > 0):
                    continue                     # outside the operator's scope (minimiser not unique)
                beta = now["W_skip_"][g].reshape(1, -1)
                theta = now["W1_"][g].reshape(1, -1)
                fmin, rbest = pref.hier_fmin(a, b, thr, model.M)
                obj = pref.hier_objective(beta, theta, a, b, thr)
                gap = pref.hier_feasible_gap(beta, theta, model.M)
                nb = np.sqrt((beta * beta).sum())
                if gap[0] > 1e-12 * model.M * nb or not obj[0] <= fmin[0] + 1e-9 * max(1.0, abs(fmin[0])) or not np.isfinite(obj[0]):
                    v.append(violation("shrinkage_is_not_prox_of_alpha_times_lr", {"group": g, "skip_before": a, "hidden_before": b, "skip_after": beta,
                                                                                   "hidden_after": theta, "threshold": thr, "M": model.M,
                                                                                   "objective": obj[0], "reference_min": fmin[0], "gap": gap[0]}, **where))
                if rbest[0] > 0 and thr > 0:
                    state["shrunk"] += 1
            for blk in ("W2_", "b1_", "b2_"):
                if not np.array_equal(now[blk], before[blk]):
                    v.append(violation("shrinkage_touches_other_weights", {"block": blk}, **where))
    model._update_weights = uw
    import gemclus.sparse._base_sparse as bs_mod
    real_cvs = bs_mod.compute_val_score
    counts = []

    def cvs_spy(clf, Xa, ya, b, g):
        # two validation calls with no training in between: the second one opens the next step of the path
        if counts and state.get("since_call", 0) == 0:
            state["phase"] = 0 if state.get("phase", "initial") == "initial" else state["phase"] + 1
        state["since_call"] = 0
        counts.append(_check_point(clf, X, declared, f"path_call_{len(counts)}", where, v))
        return real_cvs(clf, Xa, ya, b, g)
    try:
        with seams.optimiser_spy(cb):
            if mode == "fit":
                model.fit(X)
            else:
                bs_mod.compute_val_score = cvs_spy
                try:
                    import warnings as _w
                    with _w.catch_warnings():
                        _w.simplefilter("ignore")
                        ret = model.path(X, alpha_multiplier=3.0, min_features=1, max_patience=2)
                finally:
                    bs_mod.compute_val_score = real_cvs
                # the threshold of every shrinkage is (announced alpha of its step) x learning rate: 0 during the initial unpenalised fit, then the
                # alphas of the returned history (which start at the documented default when the model's alpha is 0)
                announced = list(ret[3])
                for phase, a_live in used_alpha:
                    exp_a = 0.0 if phase == "initial" else (announced[phase] if phase < len(announced) else None)
                    if exp_a is not None and a_live != exp_a:
                        v.append(violation("shrinkage_is_not_prox_of_alpha_times_lr", {"phase": phase, "alpha_in_force": a_live, "announced_alpha_of_the_step": exp_a,
                                                                                       "announced_alphas": announced[:4]}, **where))
                        break
    except ValueError as e:
        if dynamic and "0 feature(s)" in str(e):
            return {"v": [], "stats": {"evals": 1, "skipped_dynamic_empty_selection": 1}}     # KF-C07-1 (reported by C07)
        raise
    nsel = _check_point(model, X, declared, "end", where, v)
    # ... and the same on the estimator a worker / a file / a pipeline copy hands back (pickle, deepcopy, cloudpickle round trips)
    from mc import transport
    model.__dict__.pop("_update_weights", None)          # the harness' own wrapper (a local function) is not part of the estimator
    for kind_, cp_ in transport.copies(model, transport.KINDS if route == "ctor" else (transport.pick(case),)):
        if isinstance(cp_, Exception):
            v.append(violation("transported_copy_differs", {"transport": kind_, "error": repr(cp_)[:200]}, **where))
            continue
        try:
            n2 = _check_point(cp_, X, declared, "after_" + kind_, where, v)
            if n2 != nsel or not all(np.array_equal(a, b) for a, b in zip(cp_._get_weights(), model._get_weights())):
                v.append(violation("transported_copy_differs", {"transport": kind_, "selected": n2, "selected_before": nsel}, **where))
        except Exception as e:  # noqa
            v.append(violation("transported_copy_differs", {"transport": kind_, "error": repr(e)[:200]}, **where))
    # groups_ = declared list completed by singletons (a partition)
    if declared is None:
        if model.groups_ is not None:
            v.append(violation("groups_attribute_wrong", {"groups_": model.groups_, "declared": None}, **where))
    else:
        exp = declared + [[i] for i in range(D) if not any(i in g for g in declared)]
        got = [list(map(int, g)) for g in model.groups_]
        if got != exp:
            v.append(violation("groups_attribute_wrong", {"groups_": got, "expected": exp}, **where))
    seen, vs = set(), []
    for x in v:
        if x["kind"] not in seen:
            seen.add(x["kind"])
            vs.append(x)
    return {"v": vs, "nt": [case] if 0 < nsel < D else [], "out": [(name, nsel, tuple(counts[-3:]))],
            "stats": {"evals": 1, "steps_checked": state["steps"], "rows_shrunk_not_killed": state["shrunk"], "ends_with_some_features_dead": int(0 < nsel < D),
                      "ends_with_all_dead": int(nsel == 0)},
            "sample": {"config": where, "selected_at_end": nsel}}


def explorers(tier, seed):
    thorough = tier == "thorough"
    parts = [tuple(tuple(g) for g in p) for p in pref.set_partitions(range(D))]
    group_menu = [None] + parts + PARTIAL
    cases = []
    for name in M.SPARSE:
        gems = {"SparseLinearMI": ["mi"], "SparseLinearMMD": ["mmd_ova"], "SparseMLPMMD": ["mmd_ovo"]}.get(name, ["mmd_ova", "mi", "wasserstein_ova"] if thorough else ["mmd_ova", "mi"])
        for gemini in gems:
            for alpha in (0.0, 0.05, 0.5, 5.0):
                for Mc in ((0.5, 10.0, 0.0) if name in M.HAS_HIDDEN else (None,)):
                    for gi, groups in enumerate(group_menu):
                        for bs in (None, 3):
                            for dynamic in ((False, True) if name != "SparseLinearMI" else (False,)):
                                for mode in ("fit", "path"):
                                    if not thorough and Mc == 0.0 and (gi % 5 != 0 or bs is not None):
                                        continue          # quick: the edge value M=0 on a subset of the group structures
                                    if not thorough:
                                        # quick: all group structures for the default (bs, dynamic); other axes on a group subset
                                        if (bs is not None or dynamic) and gi % 4 != 0:
                                            continue
                                        if mode == "path" and alpha in (0.0, 5.0) and gi % 3 != 0:
                                            continue
                                    cases.append((name, gemini, alpha, Mc, groups, bs, dynamic, mode, seed))
    # scikit-learn protocol route: alpha, M, groups, ... arrive through set_params on a default-constructed estimator that was used once
    for name in M.SPARSE:
        gemini = {"SparseLinearMI": "mi", "SparseLinearMMD": "mmd_ova", "SparseMLPMMD": "mmd_ovo"}.get(name, "mi")
        for alpha in (0.05, 0.5):
            for gi, groups in enumerate(group_menu):
                if gi % 3 == 0:
                    for mode in ("fit", "path"):
                        for route in ("set_params", "used_set_params", "regrouped"):
                            cases.append((name, gemini, alpha, 0.5 if name in M.HAS_HIDDEN else None, groups, None, False, mode, seed, route))
    return [Explorer("sparse_monitor", "props.c06", "sparse_case", cases, chunk=4, floor=50, case_timeout=600,
                     require={"rows_shrunk_not_killed": 500, "ends_with_some_features_dead": 50},
                     rule="5 sparse estimators x GEMINIs x alpha {0,0.05,0.5,5} x M {0.5,10} x {None, ALL 15 set partitions of 4 features, 4 partial "
                          "lists} x batch size x dynamic x {fit, path}; monitored after every optimiser step (shrinkage = reference prox with threshold "
                          "alpha*optimiser.learning_rate), after fit, at every validation call of the path and after restoration; non-trivial = run "
                          "ending with some but not all features selected",
                     bound="d=4; quick thins the (batch, dynamic) axes over group structures, thorough is the full product")]
