"""
C07 - the regularisation path honours its stopping, history and best-weights contract.
(A) engine E3: subclasses of the REAL SparseLinearModel / SparseMLPModel keep path(), the selection/penalty accessors and
    the restore code and replace only the numerics; each epoch consumes one environment answer (score level, number of
    feature rows that die); all answer scripts with a bounded number of non-default answers are explored on the real
    controller gemclus.sparse._base_sparse._path and judged by the contract reference (oracles/path.py).
(B) engine E1: real sparse estimators on small datasets over a configuration grid, observed through a spy on
    compute_val_score, same reference.
"""
import itertools
import math
import warnings

import numpy as np

from mc import choices, seams
from mc import models as M
from mc.core import Explorer, violation
from oracles import path as ref

LEVEL = "model_checking"
ASSUMPTIONS = [
    "scripted environment: scores in {1.0 (default), 0.95, 0.89, 0.5, 1.2, 0.0, -0.5, NaN} x deaths in {0,1,2}; <=2 (quick) / <=3 (thorough) "
    "non-default answers among the first 8 epochs; a terminal guard kills all features once alpha exceeds a cap",
    "the early-stopping rule inside a step is not part of the property: steps are observed, not predicted",
]
SCORES = [1.0, 0.95, 0.89, 0.5, 1.2, 0.0, -0.5, float("nan")]
DEATHS = [0, 1, 2]
ANSWERS = [(s, k) for s in SCORES for k in DEATHS]          # index 0 = default (1.0, 0)
D, K = 4, 2
CAP = 8.0


def _scripted_class(base_name):
    from gemclus.gemini._base_loss import _GEMINI
    base = M.cls(base_name)

    class Env:
        pass

    class ScriptedGemini(_GEMINI):
        def __init__(self, env):
            super().__init__()
            self.env = env

        def evaluate(self, y_pred, affinity, return_grad=False):
            s = np.float64(self.env.score)
            if return_grad:
                return s, np.zeros_like(y_pred)
            return s

        def compute_affinity(self, X, y=None):
            return y

    class Scripted(base):
        """real path()/selection/penalty/restore code; scripted numerics"""

        def fit(self, X, y=None):
            env = self._env
            d = X.shape[1]
            self.n_features_in_ = d
            self.groups_ = None
            rs = np.random.RandomState(0)
            self._init_params(rs, X)
            sel = self.W_skip_ if hasattr(self, "W_skip_") else self.W_
            sel[:] = 1.0
            self._tag_array()[...] = 0.0
            env.epoch = 0
            env.score = env.init_score
            from sklearn.neural_network._stochastic_optimizers import AdamOptimizer
            self.optimiser_ = AdamOptimizer(self._get_weights(), self.learning_rate)
            return self

        def _tag_array(self):
            return self.b2_ if hasattr(self, "b2_") else self.b_

        def _sel_array(self):
            return self.W_skip_ if hasattr(self, "W_skip_") else self.W_

        def get_gemini(self):
            return ScriptedGemini(self._env)

        def predict_proba(self, X):          # numerics are scripted: skip input validation (speed)
            return self._infer(X, retain=False)

        def _update_weights(self, weights, gradients):
            env = self._env
            pos = env.epoch
            env.epoch += 1
            if env.epoch > env.horizon:
                raise RuntimeError("HORIZON")
            score, deaths = ANSWERS[env.script.get(pos, 0)]
            W = self._sel_array()
            alive = np.nonzero(np.linalg.norm(W, axis=1))[0]
            if self.alpha > CAP:
                deaths = len(alive)
            for i in alive[::-1][:deaths]:
                W[i] = 0.0
                if hasattr(self, "W1_"):
                    self.W1_[i] = 0.0
            env.score = score
            self._tag_array()[0, 0] = env.epoch      # which epoch produced these weights

    return Scripted, Env


def _run_scripted(base_name, cfg, script):
    Scripted, Env = _scripted_class(base_name)
    kw = dict(n_clusters=K, alpha=cfg["alpha"], max_iter=cfg["max_iter"], dynamic=cfg["dynamic"], random_state=0)
    if base_name == "SparseMLPModel":
        kw["n_hidden_dim"] = 2
    model = Scripted(**kw)
    env = Env()
    env.script, env.init_score, env.horizon = script, cfg["init_score"], 400
    model._env = env
    X = seams.tiny_data(5, D, 1)
    y = np.eye(5) if cfg["y_given"] else None
    pk = dict(alpha_multiplier=cfg["alpha_multiplier"], min_features=cfg["min_features"], keep_threshold=cfg["keep_threshold"],
              restore_best_weights=cfg["restore_best_weights"], early_stopping_factor=cfg["early_stopping_factor"],
              max_patience=cfg["max_patience"])
    try:
        ret, obs, texts = ref.observe_path(model, X, y, pk, call_limit=2000)
    except RuntimeError as e:
        if "HORIZON" in str(e):
            return env.epoch, [("path_does_not_terminate", {"epochs": env.epoch})], None
        raise
    if obs.get("nonterminating"):
        return env.epoch, [("path_does_not_terminate", {"calls": obs["calls"]})], None
    c = dict(cfg, d=D)
    breaches = ref.check_contract(c, obs, ret, [w.copy() for w in model._get_weights()], texts)
    # documented early stopping bounds: a step runs at most max_iter epochs and at least min(max_iter, max_patience) unless NaN
    for t, s in enumerate(obs["steps"]):
        if s["epochs"] > cfg["max_iter"]:
            breaches.append(("step_ran_more_than_max_iter_epochs", {"t": t, "epochs": s["epochs"]}))
        if not s["nan"] and s["epochs"] < min(cfg["max_iter"], cfg["max_patience"]):
            breaches.append(("step_stopped_before_patience_ran_out", {"t": t, "epochs": s["epochs"]}))
    outcome = (len(ret[3]), tuple(ret[4]), float(model._tag_array()[0, 0]), float(ret[0][-1][0, 0]),
               tuple(s["epochs"] for s in obs["steps"]))
    return env.epoch, breaches, outcome


BASE_CFG = dict(alpha=1.0, alpha_multiplier=2.0, min_features=1, keep_threshold=0.9, restore_best_weights=True,
                early_stopping_factor=0.99, max_patience=2, max_iter=2, dynamic=False, y_given=False, init_score=1.0)
CFG_AXES = {
    "alpha": [0.5, 3.0, 0.0],
    "alpha_multiplier": [1.5, 1.0, 0.5],
    "min_features": [0, 2, D, D + 1, -1, 3],
    "keep_threshold": [0.0, 1.0, -0.1, 1.5, 0.5],
    "restore_best_weights": [False],
    "early_stopping_factor": [0.5, 1.0],
    "max_patience": [1, 3],
    "max_iter": [1, 3],
    "dynamic": [True],
    "y_given": [True],
    "init_score": [0.5, 1.2, -1.0],
}


def scripted_configs(max_dev):
    out = [dict(BASE_CFG)]
    names = list(CFG_AXES)
    for r in range(1, max_dev + 1):
        for which in itertools.combinations(names, r):
            for vals in itertools.product(*[CFG_AXES[a] for a in which]):
                c = dict(BASE_CFG)
                c.update(dict(zip(which, vals)))
                out.append(c)
    return out


def scripted_case(case):
    base_name, cfg, bound, max_points, root = case
    root = {int(k): v_ for k, v_ in (root or {}).items()}
    v, outs, n_exec, points, nt = [], set(), 0, 0, 0
    seen_kinds = set()

    def run(script):
        reached, breaches, outcome = _run_scripted(base_name, cfg, script)
        return reached, (breaches, outcome)
    with warnings.catch_warnings():
        warnings.simplefilter("ignore")
        for script, reached, (breaches, outcome) in choices.explore(run, len(ANSWERS), bound, max_points, root=root,
                                                                     include_root=not root):
            n_exec += 1
            points += reached
            if outcome is not None:
                outs.add(outcome)
                if outcome[0] >= 2:
                    nt += 1
            for kind, detail in breaches:
                if kind not in seen_kinds:
                    seen_kinds.add(kind)
                    v.append(violation(kind, dict(detail, script={str(p): ANSWERS[a] for p, a in script.items()}, config=cfg),
                                       harness="scripted", model=base_name,
                                       **{k: cfg[k] for k in ("alpha", "alpha_multiplier", "min_features", "keep_threshold", "dynamic", "y_given",
                                                              "restore_best_weights")}))
    return {"v": v, "out": list(outs)[:200], "stats": {"evals": n_exec, "traces": n_exec, "transitions": points, "states": len(outs) + n_exec,
                                                      "nt_distinct": nt, "distinct_outcomes": len(outs)},
            "sample": {"model": base_name, "config": cfg, "deviation_bound": bound, "executions": n_exec, "example_outcomes": list(outs)[:3]}}


# ---------------------------------------------------------------------------------------------- (B) real models
def real_case(case):
    name, gemini, alpha, mult, minf, keep, bs, dynamic, pre, restore, data_id, seed = case
    form = "float64"
    if isinstance(data_id, str):          # input form axis: same data as data_id 0 handed over as another array-like
        form, data_id = data_id, 0
    n, d = 12, 4
    rs = np.random.RandomState(70_000 + data_id + 31 * seed)
    centers = np.array([[2, 2, 0, 0], [-2, -2, 0, 0], [2, -2, 0, 0]], dtype=float)
    X = np.concatenate([centers[i % 3] + rs.normal(size=(1, d)) * (0.4 if data_id == 0 else 1.0) for i in range(n)])
    kw = dict(n_clusters=3, alpha=alpha, max_iter=4, learning_rate=0.05, batch_size=bs, random_state=seed)
    if form.startswith("groups"):
        kw["groups"] = [[0, 1]] if form == "groups_partial" else [[0, 3], [1], [2]]
        form = "float64"
    if name in ("SparseLinearModel", "SparseMLPModel"):
        kw["gemini"] = gemini
        kw["dynamic"] = dynamic
    elif name in ("SparseLinearMMD", "SparseMLPMMD"):
        kw["dynamic"] = dynamic
        kw["ovo"] = gemini.endswith("ovo")
    y = None
    if pre:
        if name in ("SparseLinearMMD", "SparseMLPMMD"):
            kw["kernel"] = "precomputed"
            y = X @ X.T
        elif name in ("SparseLinearModel", "SparseMLPModel") and gemini.startswith("mmd"):
            from gemclus.gemini import MMDGEMINI
            kw["gemini"] = MMDGEMINI(ovo=gemini.endswith("ovo"), kernel="precomputed")
            y = X @ X.T
        else:
            return {"v": [], "stats": {"evals": 0}}
    model = M.make(name, _route="ctor" if restore else "used_set_params", **kw)
    Xro = X.copy()
    Xro.setflags(write=False)
    Xfit = {"float64": X, "list": X.tolist(), "float32": X.astype(np.float32), "fortran": np.asfortranarray(X), "readonly": Xro, "numpy_args": X}[form]
    if form == "float64" and bs is not None:
        # the (unfitted) estimator as a grid search hands it to a worker: a pickled / deep-copied / cloudpickled copy runs the same path
        from mc import transport
        model = transport.roundtrip(model, transport.pick((name, gemini, alpha, mult, minf, keep, bs, dynamic, pre, restore)))
    pk = dict(alpha_multiplier=mult, min_features=minf, keep_threshold=keep, restore_best_weights=restore, max_patience=2)
    if form == "numpy_args":
        # arguments as a ParameterGrid over np.arange / np.linspace produces them: numpy scalars mean what the Python numbers mean
        pk = dict(alpha_multiplier=np.float64(mult), min_features=np.int64(minf), keep_threshold=np.float32(keep) if keep in (0.0, 1.0) else np.float64(keep),
                  restore_best_weights=np.bool_(restore), max_patience=np.int32(2))
        kw["alpha"] = np.float64(alpha)
        model = M.make(name, **kw)
    where = dict(harness="real", model=name, gemini=gemini, alpha=alpha, alpha_multiplier=mult, min_features=minf, keep_threshold=keep,
                 batch_size=bs, dynamic=bool(kw.get("dynamic", False)), y_given=pre, restore_best_weights=restore, input_form=form)
    try:
        ret, obs, texts = ref.observe_path(model, Xfit, y, pk, call_limit=3000)
    except Exception as e:  # noqa
        return {"v": [violation("path_raises", {"error": repr(e)[:400], "config": where}, exc=type(e).__name__,
                                selection_became_empty=bool("0 feature(s)" in str(e)), **where)], "stats": {"evals": 1}}
    if obs.get("nonterminating"):
        return {"v": [violation("path_does_not_terminate", {"calls": obs["calls"], "config": where}, **where)], "stats": {"evals": 1}}
    if "steps" not in obs:
        # the path returned without ever scoring the model (e.g. a shortcut for min_features >= number of features): the contract then reads
        # "no step taken: empty histories, best weights = those of the initial UNPENALISED fit", judged against an independent fit with alpha = 0
        v = []
        if any(len(h) for h in ret[1:]):
            v.append(violation("histories_of_unequal_length", {"lengths": [len(h) for h in ret[1:]], "validation_calls_observed": 0, "config": where}, **where))
        ref_model = M.make(name, **dict(kw, alpha=0.0))
        with warnings.catch_warnings():
            warnings.simplefilter("ignore")
            ref_model.fit(Xfit, y)
        for a_, b_ in zip(ret[0], ref_model._get_weights()):
            if np.shape(a_) != np.shape(b_) or not np.allclose(a_, b_, rtol=1e-9, atol=1e-12):
                v.append(violation("best_weights_are_not_those_of_the_initial_unpenalised_fit", {"max_abs_diff": float(np.abs(np.asarray(a_) - np.asarray(b_)).max()), "config": where}, **where))
                break
        if model.alpha != alpha:
            v.append(violation("alpha_not_restored_after_path", {"alpha_now": model.alpha, "alpha_before": alpha, "config": where}, **where))
        return {"v": v, "nt": [], "stats": {"evals": 1, "traces": 1}, "sample": {"config": where, "note": "no validation call observed"}}
    cfg = dict(alpha=alpha, alpha_multiplier=mult, min_features=minf, keep_threshold=keep, restore_best_weights=restore,
               dynamic=bool(kw.get("dynamic", False)), y_given=pre, d=d)
    breaches = ref.check_contract(cfg, obs, ret, [w.copy() for w in model._get_weights()], texts)
    v = [violation(kind, dict(detail, config=where), **where) for kind, detail in breaches]
    T = len(ret[3])
    return {"v": v, "nt": [case] if T >= 2 else [], "out": [(T, tuple(ret[4]))],
            "stats": {"evals": 1, "traces": 1, "transitions": sum(s["epochs"] for s in obs["steps"]), "states": T + 1},
            "sample": {"config": where, "alphas": ret[3], "n_features": ret[4]}}


def explorers(tier, seed):
    thorough = tier == "thorough"
    bound = 3 if thorough else 2
    cfgs = scripted_configs(2 if thorough else 1)
    cA = []
    budget = 3 if thorough else 2          # total deviations: configuration arguments + non-default answers
    for base in ("SparseLinearModel", "SparseMLPModel"):
        for cfg in cfgs:
            ndev = sum(1 for k_ in BASE_CFG if cfg[k_] != BASE_CFG[k_])
            b = max(budget - ndev, 1)
            if b <= 1:
                cA.append((base, cfg, b, 8, None))
            else:
                # shard: the root shard explores <=1 deviation; one shard per first deviation explores the rest
                cA.append((base, cfg, 1, 8, None))
                for pos in range(8):
                    for alt in range(1, len(ANSWERS)):
                        cA.append((base, cfg, b, 8, {str(pos): alt}))
    cB = []
    for name in M.SPARSE:
        gems = {"SparseLinearMI": ["mi"], "SparseLinearMMD": ["mmd_ova", "mmd_ovo"], "SparseMLPMMD": ["mmd_ova", "mmd_ovo"]}.get(
            name, ["mmd_ova", "mi", "wasserstein_ova", "tv_ovo"])
        for gemini in gems:
            for alpha in (0.2, 1.0, 0.0):
                for mult in (2.0, 1.0):
                    for minf in (1, 0, 4):
                        for keep in (0.9, 0.0, 1.7):
                            for bs in (None, 5):
                                for dynamic in ((False, True) if name != "SparseLinearMI" else (False,)):
                                    for pre in (False, True):
                                        for restore in (True, False):
                                            dev = sum([alpha != 0.2, mult != 2.0, minf != 1, keep != 0.9, bs is not None, dynamic, pre, not restore])
                                            if dev <= (3 if thorough else 2):
                                                for data_id in ((0, 1) if thorough else (0,)):
                                                    cB.append((name, gemini, alpha, mult, minf, keep, bs, dynamic, pre, restore, data_id, seed))
    for name in M.SPARSE:
        g = "mi" if name == "SparseLinearMI" else "mmd_ova"
        for form in ("list", "float32", "fortran", "readonly", "groups_partial", "groups_full"):
            cB.append((name, g, 0.2, 2.0, 1, 0.9, None, False, False, True, form, seed))
        for minf in (1, 2, 3):
            for keep in (0.9, 1.0, 0.0):
                cB.append((name, g, 0.2, 2.0, minf, keep, None, False, False, True, "numpy_args", seed))
                cB.append((name, g, 0.2, 2.0, minf, keep, 5, False, False, False, "numpy_args", seed))
    return [
        Explorer("scripted_environment", "props.c07", "scripted_case", cA, kind="choices", chunk=1, floor=100, case_timeout=1200,
                 rule=f"real path controller on scripted numerics: ALL answer scripts with <= {bound} non-default answers (of {len(ANSWERS) - 1} alternatives: "
                      "score level x rows dying) on the choice points reached among the first 8 epochs, for the default configuration and every "
                      f"configuration with <= {2 if thorough else 1} deviating argument(s) over {list(CFG_AXES)} (out-of-range values included); "
                      "non-trivial = execution whose path has >=2 steps; outcomes = distinct (history, kept-weights tag, final tag, epochs per step)",
                 bound=f"deviation bound {bound} on answers, {2 if thorough else 1} on configuration"),
        Explorer("real_models", "props.c07", "real_case", cB, kind="lattice", chunk=4, floor=50, case_timeout=600,
                 rule="real path() of the 5 sparse estimators x GEMINIs x alpha x multiplier x min_features x keep_threshold x batch_size x dynamic x "
                      "precomputed x restore (configurations with <=2 (quick) / <=3 (thorough) deviations) observed through compute_val_score; "
                      "non-trivial = path with >=2 steps"),
    ]
