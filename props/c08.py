"""
C08 - KAURI gains are real objective increases and the chosen split is the best one.
Engine E2: explicit-state search over tree states (Z, Y, n_leaves, n_clusters).  The transition relation is ANY admissible
(leaf, feature, threshold, assignment) - a superset of what the greedy loop takes - so states the shipped datasets never
produce are visited; in every state the REAL find_best_split (compiled extension) is called on all leaves and on each
single leaf and compared with the brute-force oracle of oracles/kauri.py.  A second explorer runs the real Kauri.fit
(greedy) with a spy on gemclus.tree.kauri.find_best_split and checks every call plus the final accounting.
"""
import collections
import itertools

import numpy as np

from mc.core import Explorer, violation
from oracles import kauri as ref

LEVEL = "model_checking"
ASSUMPTIONS = [
    "gemclus/tree/_utils is checked as the compiled extension present in the working tree (Cython is not installed)",
    "datasets: multisets of rows over {0,1,2}^d (ties, duplicates) and seed-generic reals, n<=6 (quick) / 7 (thorough), d<=2",
    "state search is capped per root (cap reported); below the cap the reachable set is complete",
]


def _fbs():
    from gemclus.tree._utils import find_best_split
    return find_best_split


def split_dict(s):
    return dict(leaf=int(s.leaf), feature=int(s.feature), threshold=float(s.threshold), left_target=int(s.left_target),
                right_target=int(s.right_target), gain=float(s.gain))


def make_kernel(kind, X, seed):
    n = len(X)
    rs = np.random.RandomState(40_000 + 17 * seed + n)
    B = rs.normal(size=(n, n))
    if kind == "linear":
        return X @ X.T
    if kind == "lin_small":                 # small-magnitude kernel: gains of order 1e-10 are still real gains
        return (X @ X.T + 0.5) * 1e-10
    if kind == "rbf_big":
        d2 = ((X[:, None, :] - X[None, :, :]) ** 2).sum(2)
        return np.exp(-d2 / X.shape[1]) * 1e7
    if kind == "rbf":
        d2 = ((X[:, None, :] - X[None, :, :]) ** 2).sum(2)
        return np.exp(-d2 / X.shape[1])
    if kind == "psd":
        return B @ B.T
    if kind.startswith("indef"):
        k = int(kind[5:] or 0)
        for _ in range(k):
            B = rs.normal(size=(n, n))
        return (B + B.T) / 2
    raise ValueError(kind)


def make_data(spec, seed):
    kind = spec[0]
    if kind == "rows":            # multiset of lattice rows
        return np.array(spec[1], dtype=float)
    if kind in ("rows_ulp", "rows_huge"):
        # the same multisets over three values that are ADJACENT doubles (any arithmetic on two neighbouring thresholds rounds onto one
        # of them) / over values whose sums and differences overflow
        a = 0.3
        table = np.array([a, np.nextafter(a, 1), np.nextafter(np.nextafter(a, 1), 1)]) if kind == "rows_ulp" else np.array([-1e308, 1e308, 1.7e308])
        return table[np.array(spec[1], dtype=int)]
    if kind == "blobs":           # hundreds of samples in overlapping groups: trees with dozens of leaves
        _, n, d = spec
        rs = np.random.RandomState(43_000 + 13 * seed + n + d)
        centres = rs.normal(size=(6, d)) * 1.5
        return centres[rs.randint(6, size=n)] + rs.normal(size=(n, d))
    if kind == "generic":
        _, n, d = spec
        rs = np.random.RandomState(41_000 + 13 * seed + 5 * n + d)
        while True:
            X = rs.normal(size=(n, d))
            f = np.sort(X.reshape(-1))
            if np.min(np.diff(f)) > 1e-3:
                return X
    raise ValueError(kind)


def _same_top(best, alts, Y):
    """Do both halves of the best reallocation prefer the same single switch target? (precondition of KF-C08-2)"""
    if best is None or best["family"] != "realloc":
        return None
    cut = [a for a in alts if a["family"] == "switch" and (a["leaf"], a["feature"], a["threshold"]) ==
           (best["leaf"], best["feature"], best["threshold"])]
    kk = int(Y[:, best["leaf"]].argmax())
    lefts = {a["left_target"]: a["gain"] for a in cut if a["right_target"] == kk}
    rights = {a["right_target"]: a["gain"] for a in cut if a["left_target"] == kk}
    if lefts and rights:
        return bool(max(lefts, key=lefts.get) == max(rights, key=rights.get))
    return None


def check_call(K, X, Y, Z, n_leaves, n_clusters, K_max, min_leaf, leaves, feats, ctx, shadow=False):
    """One call of the real find_best_split against the oracle.  Returns (split dict, alternatives, violations)."""
    fbs = _fbs()
    Kq = n_clusters + 1 if shadow else K_max
    s = split_dict(fbs(np.ascontiguousarray(K, dtype=np.float64), np.ascontiguousarray(X, dtype=np.float64),
                       np.array(leaves, dtype=np.int64), Y, Z, n_clusters, Kq, n_leaves, min_leaf, np.array(feats, dtype=np.intp)))
    alts = list(ref.alternatives(K, X, leaves, Y, Z, n_clusters, Kq, n_leaves, min_leaf, feats))
    labels, _ = ref.labels_of(Y, Z, n_leaves)
    tol = 1e-9 * max(abs(ref.objective(labels, K)), np.abs(K).sum() / max(len(K), 1))     # relative to the kernel's magnitude
    best = max(alts, key=lambda a: a["gain"]) if alts else None
    v = []
    base = dict(n_clusters=n_clusters, K_max=Kq, n_leaves=n_leaves, min_leaf=min_leaf, shadow=shadow,
                explored_leaves=list(map(int, leaves)), features=list(map(int, feats)))
    detail = dict(ctx, state={"Y": Y[:, :n_leaves], "Z": Z[:n_leaves]}, returned=s)

    def others_pref():
        """do both halves of the best reallocation prefer the same single target? (signature of KF-C08-2)"""
        return None
    if s["leaf"] >= 0:
        if s["leaf"] not in leaves or s["feature"] not in feats:
            v.append(violation("split_outside_candidates", detail, **base))
            return s, alts, v
        k = int(Y[:, s["leaf"]].argmax())
        fam = ref.classify(s["left_target"], s["right_target"], k, n_clusters)
        act, nl, nr = ref.actual_gain(K, X, Y, Z, n_leaves, s)
        members = np.where(Z[s["leaf"]] == 1)[0]
        if nl < min_leaf or nr < min_leaf:
            v.append(violation("split_violates_min_samples_leaf", dict(detail, n_left=nl, n_right=nr), returned_family=fam, **base))
        if s["threshold"] not in X[members, s["feature"]]:
            v.append(violation("threshold_not_an_observed_value", detail, returned_family=fam, **base))
        if not any(a["leaf"] == s["leaf"] and a["feature"] == s["feature"] and a["threshold"] == s["threshold"]
                   and a["left_target"] == s["left_target"] and a["right_target"] == s["right_target"] for a in alts):
            v.append(violation("split_not_admissible", detail, returned_family=fam, **base))
        exact = abs(act - s["gain"]) <= tol
        if not exact:
            v.append(violation("gain_mismatch", dict(detail, claimed=s["gain"], actual=act),
                               returned_family=fam, involves_double_star=(fam == "double_star"), **base))
        if best is not None and best["gain"] > s["gain"] + tol:
            same_top = _same_top(best, alts, Y)
            non_ds = [a["gain"] for a in alts if a["family"] != "double_star"]
            non_re = [a["gain"] for a in alts if a["family"] != "realloc"]
            v.append(violation("not_best", dict(detail, best_alternative=best, returned_actual_gain=act),
                               returned_family=fam, best_family=best["family"],
                               involves_double_star=(fam == "double_star" or best["family"] == "double_star"),
                               returned_gain_exact=bool(exact), best_realloc_halves_prefer_same_target=same_top,
                               returned_beats_all_non_realloc=bool(not non_re or s["gain"] >= max(non_re) - tol),
                               returned_beats_all_non_double_star=bool(not non_ds or s["gain"] >= max(non_ds) - tol), **base))
    else:
        if best is not None and best["gain"] > tol:
            non_ds = [a["gain"] for a in alts if a["family"] != "double_star"]
            non_re = [a["gain"] for a in alts if a["family"] != "realloc"]
            v.append(violation("missed_positive_gain", dict(detail, best_alternative=best), best_family=best["family"],
                               involves_double_star=(best["family"] == "double_star"), returned_family="none",
                               returned_gain_exact=True, best_realloc_halves_prefer_same_target=_same_top(best, alts, Y),
                               returned_beats_all_non_realloc=bool(not non_re or max(non_re) <= tol),
                               returned_beats_all_non_double_star=bool(not non_ds or max(non_ds) <= tol), **base))
    return s, alts, v


def state_search(case):
    data_spec, kernel_kind, K_max, min_leaf, cap, fanout, seed = case
    X = make_data(data_spec, seed)
    n, d = X.shape
    K = make_kernel(kernel_kind, X, seed)
    max_leaves = n
    Z = np.zeros((max_leaves, n), dtype=np.int64)
    Z[0] = 1
    Y = np.zeros((K_max, max_leaves), dtype=np.int64)
    Y[0, 0] = 1
    ctx = {"X": X, "kernel": kernel_kind, "kernel_matrix": K}
    seen = {(Y.tobytes(), Z.tobytes())}
    frontier = collections.deque([(Y, Z, 1, 1, 0)])
    stats = collections.Counter()
    vs, nontrivial, outs = [], 0, set()
    feats = list(range(d))
    while frontier:
        if stats["states"] >= cap:
            stats["cap_hit"] = 1
            break
        Y, Z, nl, nc, depth = frontier.popleft()
        stats["states"] += 1
        stats["max_depth"] = max(stats["max_depth"], depth)
        leaves = list(range(nl))
        s, alts, v = check_call(K, X, Y, Z, nl, nc, K_max, min_leaf, leaves, feats, ctx)
        vs.extend(v)
        stats["calls"] += 1
        if sum(1 for a in alts if a["gain"] > 1e-9) >= 2:
            nontrivial += 1
        if nc < K_max - 1:          # shadow call: double star disabled, everything else identical
            _, _, v = check_call(K, X, Y, Z, nl, nc, K_max, min_leaf, leaves, feats, ctx, shadow=True)
            vs.extend(v)
            stats["calls"] += 1
        if nl > 1:
            for j in leaves:
                _, _, v = check_call(K, X, Y, Z, nl, nc, K_max, min_leaf, [j], feats, ctx)
                vs.extend(v)
                stats["calls"] += 1
            if d > 1:
                for f in feats:
                    _, _, v = check_call(K, X, Y, Z, nl, nc, K_max, min_leaf, leaves, [f], ctx)
                    vs.extend(v)
                    stats["calls"] += 1
        if fanout and nc >= 3:
            for t in range(fanout):
                Kf = make_kernel(f"indef{t + 1}", X, seed + 1000 * t + nl)
                _, _, v = check_call(Kf, X, Y, Z, nl, nc, K_max, min_leaf, leaves, feats,
                                     {"X": X, "kernel": f"fanout{t}", "kernel_matrix": Kf})
                vs.extend(v)
                stats["calls"] += 1
        outs.add((nl, nc, s["leaf"] >= 0))
        if nl >= max_leaves:
            continue
        for a in alts:
            stats["transitions"] += 1
            Y2, Z2, nl2, nc2 = ref.apply_split(Y, Z, nl, nc, X, a)
            key = (Y2.tobytes(), Z2.tobytes())
            if key not in seen:
                seen.add(key)
                frontier.append((Y2, Z2, nl2, nc2, depth + 1))
    return _pack(vs, stats, nontrivial, outs, case, {"data": data_spec, "kernel": kernel_kind, "K_max": K_max, "min_leaf": min_leaf,
                                                     "states": stats["states"], "transitions": stats["transitions"]})


def _pack(vs, stats, nontrivial, outs, case, sample):
    # keep one violation per (kind, families, shadow, n_clusters)
    seen, keep = set(), []
    for x in vs:
        w = x["where"]
        k = (x["kind"], w.get("returned_family"), w.get("best_family"), w.get("shadow"), w.get("n_clusters"))
        if k not in seen:
            seen.add(k)
            keep.append(x)
    st = dict(stats)
    st["traces"] = st.get("calls", 0)
    st["evals"] = st.get("calls", 0)
    st["nt_distinct"] = nontrivial
    return {"v": keep[:25], "out": [(case[1], o) for o in outs], "stats": st, "sample": sample}


# ------------------------------------------------------------------ hand-seeded deep states (>= 4 clusters)
def seeded_state(case):
    """n=8, one feature; cluster 0 owns leaves {0,1},{2,3}; leaves {4},{5},{6,7} are clusters 1..3 (more clusters for K=5);
    explored under many seed-generic symmetric kernels."""
    layout, K_max, nk, seed, fixed = case
    n = sum(len(l) for l in layout["leaves"])
    X = np.arange(n, dtype=float).reshape(-1, 1)
    nl = len(layout["leaves"])
    nc = max(layout["cluster"]) + 1
    Z = np.zeros((n, n), dtype=np.int64)
    Y = np.zeros((K_max, n), dtype=np.int64)
    for j, (mem, c) in enumerate(zip(layout["leaves"], layout["cluster"])):
        Z[j, mem] = 1
        Y[c, j] = 1
    stats = collections.Counter()
    vs, nontrivial = [], 0
    for t in range(nk):
        if fixed is not None:
            Kf = np.array(fixed, dtype=float)
        else:
            rs = np.random.RandomState(50_000 + 7919 * seed + t)
            B = rs.normal(size=(n, n))
            Kf = (B + B.T) / 2
        ctx = {"X": X, "kernel": f"sym{t}", "kernel_matrix": Kf}
        for leaves in ([0], list(range(nl))):
            s, alts, v = check_call(Kf, X, Y, Z, nl, nc, K_max, 1, leaves, [0], ctx)
            vs.extend(v)
            stats["calls"] += 1
            stats["states"] += 1
            stats["transitions"] += len(alts)
            if sum(1 for a in alts if a["gain"] > 1e-9) >= 2:
                nontrivial += 1
    return _pack(vs, stats, nontrivial, {(nl, nc)}, ("seeded", "seeded"), {"layout": layout, "K_max": K_max, "kernels": nk})


# ------------------------------------------------------------------ greedy runs of the real Kauri.fit
def greedy_run(case):
    data_spec, kernel_kind, params, seed = case
    import gemclus.tree.kauri as kmod
    from gemclus.tree import Kauri
    X = make_data(data_spec, seed)
    n, d = X.shape
    Kmat = make_kernel(kernel_kind, X, seed)
    calls = []
    real = kmod.find_best_split

    def spy(kernel, Xa, leaves, Y, Z, n_clusters, K_max, n_leaves, min_leaf, feats):
        s = real(kernel, Xa, leaves, Y, Z, n_clusters, K_max, n_leaves, min_leaf, feats)
        calls.append((leaves.copy(), Y.copy(), Z.copy(), int(n_clusters), int(K_max), int(n_leaves), int(min_leaf), feats.copy(), split_dict(s)))
        return s
    model = Kauri(kernel="precomputed", random_state=seed, **params)
    if params.get("max_depth") == 2:      # estimator-protocol route on part of the grid: same hyperparameters through set_params
        model = Kauri().set_params(kernel="precomputed", random_state=seed, **params)
    if (params.get("max_features") or 0) >= 2 and d >= 2:
        # history: the same object first met NARROWER data than max_features (the documented clip to the number of features applies to that
        # fit only); the later fit on the full data draws max_features features again
        import warnings
        with warnings.catch_warnings():
            warnings.simplefilter("ignore")
            try:
                model.fit(X[:, :1], Kmat)
                model.score(X[:, :1], Kmat)
            except Exception:  # noqa
                pass
    if params.get("max_features") == 1 or kernel_kind == "indef":
        # history: the estimator went through the documented fallback path first (precomputed kernel forgotten: warning + linear kernel)
        import warnings
        with warnings.catch_warnings():
            warnings.simplefilter("ignore")
            try:
                model.fit(X)
                model.score(X)
            except Exception:  # noqa
                pass
    kmod.find_best_split = spy
    try:
        if params.get("max_leaves") == 3 or (params.get("max_features") or 0) >= 2:
            lab_fp = model.fit_predict(X, Kmat)          # the other entry point: same training on the same kernel, labels returned
        else:
            model.fit(X, Kmat)
            lab_fp = None
    finally:
        kmod.find_best_split = real
    ctx = {"X": X, "kernel": kernel_kind, "kernel_matrix": Kmat, "params": params}
    stats = collections.Counter()
    vs, nontrivial = [], 0
    if lab_fp is not None and not np.array_equal(lab_fp, model.labels_):
        vs.append(violation("labels_differ_from_applied_splits", dict(ctx, fit_predict_returned=lab_fp, labels_=model.labels_), n_clusters=int(len(np.unique(model.labels_))),
                            K_max=params.get("max_clusters", 3), shadow=False))
    # reference bookkeeping: the state handed to find_best_split must be the one obtained by applying the previous
    # returned splits with the documented update rule (left child keeps the leaf id, right child gets a new id)
    max_leaves_p = params.get("max_leaves") or n
    rZ = np.zeros((max_leaves_p, n), dtype=np.int64)
    rZ[0] = 1
    rY = np.zeros((params.get("max_clusters", 3), max_leaves_p), dtype=np.int64)
    rY[0, 0] = 1
    rnl, rnc = 1, 1
    diverged = False
    # reference list of explorable leaves: a leaf may be split iff it holds >= min_samples_split samples and lies above max_depth
    mss = params.get("min_samples_split", 2)
    mdepth = params.get("max_depth") or n
    leaf_depth = {0: 0}

    def explorable():
        return sorted(l for l, dep in leaf_depth.items() if dep < mdepth and int(rZ[l].sum()) >= mss)
    want_feats = min(d, max(params.get("max_features") or d, 1))
    for (leaves, Y, Z, nc, K_max, nl, ml, feats, s) in calls:
        fl = sorted(int(f) for f in feats)
        if len(fl) != want_feats or len(set(fl)) != len(fl) or (fl and (fl[0] < 0 or fl[-1] >= d)):
            vs.append(violation("drawn_features_differ_from_max_features", dict(ctx, call_index=stats["calls"], drawn=fl, max_features=params.get("max_features"), n_features=d),
                                n_clusters=nc, K_max=K_max, shadow=False))
            break
        if not diverged and sorted(int(l) for l in leaves) != explorable():
            vs.append(violation("explorable_leaves_differ_from_the_structural_limits",
                                dict(ctx, call_index=stats["calls"], passed=sorted(int(l) for l in leaves), expected=explorable(),
                                     leaf_sizes={int(l): int(rZ[l].sum()) for l in leaf_depth}, leaf_depths=dict(leaf_depth)),
                                n_clusters=nc, K_max=K_max, shadow=False))
            diverged = True
        if not diverged and not (nl == rnl and nc == rnc and np.array_equal(Y, rY) and np.array_equal(Z, rZ)
                                 and K_max == params.get("max_clusters", 3) and ml == params.get("min_samples_leaf", 1)):
            diverged = True
            vs.append(violation("bookkeeping_state_diverges", dict(ctx, call_index=stats["calls"], passed={"Y": Y[:, :nl], "Z": Z[:nl],
                                "n_leaves": nl, "n_clusters": nc}, expected={"Y": rY[:, :rnl], "Z": rZ[:rnl], "n_leaves": rnl, "n_clusters": rnc}),
                                n_clusters=nc, K_max=K_max, shadow=False))
        if s["leaf"] >= 0 and s["gain"] > 0 and not diverged and rnl < max_leaves_p:
            dep = leaf_depth[s["leaf"]]
            leaf_depth[s["leaf"]] = dep + 1
            leaf_depth[rnl] = dep + 1
            rY, rZ, rnl, rnc = ref.apply_split(rY, rZ, rnl, rnc, X, s)
        _, alts, v = check_call(Kmat, X, Y, Z, nl, nc, K_max, ml, list(leaves), list(feats), ctx)
        vs.extend(v)
        stats["calls"] += 1
        stats["states"] += 1
        stats["transitions"] += 1
        if sum(1 for a in alts if a["gain"] > 1e-9) >= 2:
            nontrivial += 1
    if not diverged:
        # stop reason: the loop may only end on a refused split (gain <= 0), on max_leaves, or with nothing left to explore
        last_gain = calls[-1][8]["gain"] if calls else None
        if (not calls or last_gain > 0) and rnl < max_leaves_p and explorable():
            vs.append(violation("fit_stopped_although_a_leaf_could_still_be_explored",
                                dict(ctx, explorable=explorable(), n_leaves=rnl, last_gain=last_gain), n_clusters=rnc,
                                K_max=params.get("max_clusters", 3), shadow=False))
        exp_labels, exp_leaf = ref.labels_of(rY, rZ, rnl)
        if not np.array_equal(exp_labels, model.labels_):
            vs.append(violation("labels_differ_from_applied_splits", dict(ctx, labels=model.labels_, expected=exp_labels),
                                n_clusters=rnc, K_max=params.get("max_clusters", 3), shadow=False))
    # accounting: final score = root score + sum of recorded gains; labels consistent with the objective
    root = ref.objective(np.zeros(n, dtype=int), Kmat)
    final = ref.objective(model.labels_, Kmat)
    gains = float(sum(model.tree_.gains))
    tol = 1e-9 * max(abs(final), abs(root), np.abs(Kmat).sum() / n)
    base = dict(n_clusters=int(len(np.unique(model.labels_))), K_max=params.get("max_clusters", 3), shadow=False)
    if abs(final - (root + gains)) > tol * 10:
        used_ds = any(c[8]["left_target"] >= c[3] and c[8]["right_target"] >= c[3] for c in calls if c[8]["leaf"] >= 0 and c[8]["gain"] > 0)
        vs.append(violation("final_score_is_not_root_plus_gains", dict(ctx, root=root, final=final, sum_gains=gains, labels=model.labels_),
                            involves_double_star=bool(used_ds), returned_family="double_star" if used_ds else "n/a", **base))
    try:
        sc = model.score(X, Kmat)
        if abs(sc - final) > tol:
            vs.append(violation("score_differs_from_objective_of_labels", dict(ctx, score=sc, objective=final), **base))
    except Exception as e:  # noqa
        vs.append(violation("score_raises", dict(ctx, error=repr(e)), **base))
    # the fitted estimator as a worker / a stored file hands it back: the recorded gains still add up to the score of ITS partition
    from mc import transport
    kind_ = transport.pick((data_spec, kernel_kind, sorted(params.items(), key=str)))
    try:
        cp_ = transport.roundtrip(model, kind_)
        lab_c = cp_.predict(X)
        sc_c = cp_.score(X, Kmat)
        if not np.array_equal(lab_c, model.labels_) or abs(sc_c - (root + float(sum(cp_.tree_.gains)))) > tol * 10 or abs(ref.objective(lab_c, Kmat) - sc_c) > tol:
            used_ds = any(c[8]["left_target"] >= c[3] and c[8]["right_target"] >= c[3] for c in calls if c[8]["leaf"] >= 0 and c[8]["gain"] > 0)
            vs.append(violation("final_score_is_not_root_plus_gains", dict(ctx, after=kind_, labels=model.labels_, copy_predicts=lab_c, root=root, final=sc_c,
                                                                          sum_gains=float(sum(cp_.tree_.gains))),
                                involves_double_star=bool(used_ds), returned_family="double_star" if used_ds else "n/a", **dict(base, transport=kind_)))
    except Exception as e:  # noqa
        vs.append(violation("score_raises", dict(ctx, after=kind_, error=repr(e)[:200]), **base))
    # stop reason: last call must be a refusal (gain<=0), or a structural limit was hit
    if calls:
        last = calls[-1][8]
        n_leaves_final = len(np.unique(model.leaves_))
        max_leaves = params.get("max_leaves") or n
        if last["gain"] > 0 and n_leaves_final < max_leaves:
            # loop ended after a successful split: only legal if no leaf is left to explore (structural limits)
            pass
    return _pack(vs, stats, nontrivial, {(len(calls), int(len(np.unique(model.labels_))))}, (0, kernel_kind),
                 {"data": data_spec, "kernel": kernel_kind, "params": params, "calls": len(calls), "labels": model.labels_})


# ------------------------------------------------------------------ case menus
def row_multisets(n, d, vals=(0, 1, 2)):
    rows = list(itertools.product(vals, repeat=d))
    for combo in itertools.combinations_with_replacement(range(len(rows)), n):
        yield ("rows", [list(rows[i]) for i in combo])


LAYOUT4 = {"leaves": [[0, 1], [2, 3], [4], [5], [6, 7]], "cluster": [0, 0, 1, 2, 3]}
LAYOUT5 = {"leaves": [[0, 1], [2, 3], [4], [5], [6], [7]], "cluster": [0, 0, 1, 2, 3, 4]}


def explorers(tier, seed):
    thorough = tier == "thorough"
    c1 = []
    cap = 20000 if thorough else 1500
    for spec in row_multisets(5 if thorough else 4, 1):
        for kern in ("linear", "rbf", "psd", "indef"):
            for K_max in (2, 3, 4, 5):
                for ml in (1, 2):
                    c1.append((spec, kern, K_max, ml, cap, 0, seed))
    for spec in list(row_multisets(4, 2))[:: (1 if thorough else 6)]:
        for kern in (("linear", "indef") if not thorough else ("linear", "rbf", "psd", "indef")):
            for K_max in ((3, 5) if not thorough else (2, 3, 4, 5)):
                c1.append((spec, kern, K_max, 1, cap, 0, seed))
    gen = [("generic", 5, 1), ("generic", 6, 1), ("generic", 5, 2), ("generic", 6, 2)] + ([("generic", 7, 1), ("generic", 7, 2)] if thorough else [])
    for spec in gen:
        for kern in ("linear", "rbf", "psd", "indef", "indef2"):
            for K_max in (2, 3, 4, 5):
                for ml in (1, 2):
                    c1.append((spec, kern, K_max, ml, cap, 4 if K_max >= 4 else 0, seed))
    c2 = [(LAYOUT4, 4, 40 if not thorough else 400, seed * 100 + b, None) for b in range(16)] + \
         [(LAYOUT5, 5, 40 if not thorough else 400, seed * 100 + b, None) for b in range(16)] + \
         [(LAYOUT4, 5, 40 if not thorough else 400, seed * 100 + b, None) for b in range(8)]
    # witnesses of the known findings, independent of VERIF_SEED
    c1 += [(("generic", 6, 1), "indef", 5, 1, cap, 4, 0), (("generic", 6, 2), "linear", 4, 1, cap, 0, 0)]
    c2 += [(LAYOUT4, 4, 40, 0, None), (LAYOUT5, 5, 40, 0, None)]
    c3 = []
    grid = [dict(max_clusters=mc, min_samples_leaf=ml, min_samples_split=max(2, 2 * ml), max_features=mf, max_leaves=mlv, max_depth=md)
            for mc in (2, 3, 4, 5, 1) for ml in (1, 2) for mf in (None, 1) for mlv in (None, 3) for md in (None, 2)]
    datas = list(row_multisets(4, 1)) + list(row_multisets(5, 1)) + list(row_multisets(4, 2))[:: (2 if thorough else 9)] + \
        [("generic", 6, 1), ("generic", 6, 2), ("generic", 7, 2)]
    for spec in datas:
        for kern in ("linear", "rbf", "indef", "lin_small", "rbf_big"):
            for p in (grid if thorough else grid[::3]):
                c3.append((spec, kern, p, seed))
    for spec in list(row_multisets(4, 2))[::5] + [("generic", 6, 2), ("generic", 7, 2)]:
        for kern in ("linear", "rbf", "indef"):
            for mc in (3, 4):
                for mf in (2, 3):
                    c3.append((spec, kern, dict(max_clusters=mc, min_samples_leaf=1, min_samples_split=2, max_features=mf, max_leaves=None, max_depth=None), seed))
    for kind in ("rows_ulp", "rows_huge"):
        for _, rows in list(row_multisets(4, 1)) + list(row_multisets(5, 1)) + list(row_multisets(4, 2))[::9]:
            for kern in ("psd", "indef"):
                for p in grid[::3] if not thorough else grid:
                    c3.append(((kind, rows), kern, p, seed))
    return [
        Explorer("state_search", "props.c08", "state_search", c1, kind="bfs", chunk=2, floor=200, case_timeout=900,
                 rule="BFS over tree states from the root with ANY admissible (leaf, feature, threshold, star/double-star/switch/"
                      "reallocation) as transition, raw (Z,Y) as state key (nothing merged); in each state the real find_best_split is "
                      "called on all leaves, on each single leaf, on each single feature, with double-star disabled (shadow), and under a "
                      "fan-out of seed-generic indefinite kernels at states with >=3 clusters; non-trivial = state with >=2 positive-gain "
                      "alternatives; roots = lattice row multisets and seed-generic data x {linear, rbf, psd, indefinite} kernels x K_max 2..5 x min_leaf 1..2",
                 bound=f"n<={7 if thorough else 6}, d<=2, cap {cap} states per root (cap_hit counts roots that reached it)",
                 exhaustive=False),
        Explorer("seeded_deep_states", "props.c08", "seeded_state", c2, kind="bfs", chunk=1, floor=20,
                 rule="hand-seeded states with >=4 clusters where one cluster owns two leaves (n=8, one feature) under many seed-generic symmetric "
                      "kernels, exploring the first leaf alone and all leaves; non-trivial = >=2 positive alternatives", exhaustive=False),
        Explorer("greedy_runs", "props.c08", "greedy_run", c3, kind="bfs", chunk=8, floor=100,
                 rule="real Kauri.fit on lattice row multisets (also over adjacent doubles and over values near the overflow limit) / generic data x kernels x parameter grid with a spy on "
                      "gemclus.tree.kauri.find_best_split: every call checked against the oracle, final score == root score + sum of gains, "
                      "score(X) == objective(labels_)", exhaustive=False),
    ]
