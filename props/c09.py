"""
C09 - KAURI trees respect their structural limits and reproduce their own partition.
Engine E1: all multisets of rows over {0,1,2}^d (ties, duplicates, constant features) for small n, plus offset/generic
variants, x one- and two-axis deviations (quick) / the full product (thorough) of the tree limits, kernels and seeds;
real Kauri.fit; oracle = reference routing through the tree arrays (oracles/kauri.py).
"""
import itertools

import numpy as np
from sklearn.metrics import pairwise_kernels

from mc.core import Explorer, violation
from oracles import kauri as ref
from props.c08 import make_data, row_multisets

ASSUMPTIONS = [
    "datasets: all multisets of rows over {0,1,2}^d, n<=5 (d=1) / n<=4 (d=2), offset and seed-generic variants up to n=7",
    "scikit-learn pairwise_kernels is the meaning of kernel names",
]
AXES = {
    "max_clusters": [3, 1, 2, 4],
    "max_depth": [None, 1, 2],
    "split_leaf": [(2, 1), (3, 1), (5, 1), (5, 2), (4, 2)],
    "max_features": [None, 1],
    "max_leaves": [None, 2, 3],
    "kernel": ["linear", "rbf", "sigmoid", "precomputed"],
    "seed": [0, 1],
}


def configs(max_dev):
    names = list(AXES)
    out = []
    if max_dev is None:
        for combo in itertools.product(*[range(len(AXES[a])) for a in names]):
            out.append(dict(zip(names, combo)))
        return out
    for r in range(max_dev + 1):
        for which in itertools.combinations(names, r):
            for vals in itertools.product(*[range(1, len(AXES[a])) for a in which]):
                c = {a: 0 for a in names}
                c.update(dict(zip(which, vals)))
                out.append(c)
    return out


def fit_case(case):
    data_spec, cfg, variant, seed = case
    from gemclus.tree import Kauri
    X = make_data(data_spec, seed)
    if variant == "offset":
        X = X * 0.37 - 1.21
    n, d = X.shape
    p = dict(cfg["explicit"]) if "explicit" in cfg else {a: AXES[a][i] for a, i in cfg.items()}
    p["split_leaf"] = tuple(p["split_leaf"])
    mss, msl = p["split_leaf"]
    kw = dict(max_clusters=p["max_clusters"], max_depth=p["max_depth"], min_samples_split=mss, min_samples_leaf=msl,
              max_features=p["max_features"], max_leaves=p["max_leaves"], kernel=p["kernel"], random_state=p["seed"])
    y = None
    if p["kernel"] == "precomputed":
        rs = np.random.RandomState(60_000 + n)
        B = rs.normal(size=(n, n))
        y = (B + B.T) / 2
        Kref = y
    else:
        Kref = pairwise_kernels(X, metric=p["kernel"])
    where = {k: (v if not isinstance(v, tuple) else list(v)) for k, v in p.items()}
    where["n"] = n
    where["d"] = d
    # estimator-protocol route: on the seed-axis deviation the hyperparameters arrive through set_params on a default estimator
    if p["seed"] == 1:      # ... and spelled as numpy integers (values taken from an array, a grid of a model-selection tool)
        kw = {k: (np.int64(x) if isinstance(x, int) and not isinstance(x, bool) and k != "random_state" else x) for k, x in kw.items()}
    model = Kauri(**kw) if p["seed"] == 0 else Kauri().set_params(**kw)
    if p["kernel"] != "linear" and p["seed"] == 0 and n >= 2:
        # estimator-protocol route on the kernel-axis deviation: the SAME object first worked on the same samples with another kernel
        # (fit + score), then got the configuration under test through set_params - a model-selection sweep over kernels
        import warnings
        model = Kauri(kernel="linear" if p["kernel"] != "precomputed" else "rbf", max_clusters=2, random_state=3)
        with warnings.catch_warnings():
            warnings.simplefilter("ignore")
            try:
                model.fit(X)
                model.score(X)
            except Exception:  # noqa
                pass
        model.set_params(**kw)
    if n < msl:
        try:
            model.fit(X, y)
        except ValueError:
            return {"v": [], "stats": {"evals": 1, "rejected_too_few_samples": 1}}
        return {"v": [violation("fit_accepts_fewer_samples_than_min_samples_leaf", {"X": X, "params": kw}, **where)]}
    if p["kernel"] == "precomputed" and p["seed"] == 1:
        # history: fitted and scored once without the matrix (documented fallback: warning + linear kernel), then used properly
        import warnings
        with warnings.catch_warnings():
            warnings.simplefilter("ignore")
            try:
                model.fit(X)
                model.score(X)
            except Exception:  # noqa
                pass
    model.fit(X, y)
    if p["seed"] == 0 and n >= 2:
        # event: a refit of the same object is REFUSED half-way (a kernel that rejects the data; a missing matrix with warnings as errors).  Whatever
        # the object then exposes must still be one model: the checks below run on the state it is left in
        import warnings
        keep = model.get_params(deep=False)
        for bad in ({"kernel": "chi2"}, {"kernel": "precomputed"}):
            try:
                with warnings.catch_warnings():
                    warnings.simplefilter("error")
                    model.set_params(**bad).fit(X - 10.0)
            except Exception:  # noqa
                pass
        model.set_params(**keep)
        if not hasattr(model, "tree_") or not hasattr(model, "labels_"):
            return {"v": [], "nt": [], "stats": {"evals": 1, "refused_refit_left_no_model": 1}}
    transported = None
    if n >= 2 and (n + d + len(repr(cfg))) % 3 != 0:
        # the fitted estimator as scikit-learn's tooling hands it back (pickled from a worker, deep-copied in a pipeline): same tree, same answers
        from mc import transport
        transported = transport.pick((data_spec, repr(cfg), variant))
        orig_pred = model.predict(X)
        try:
            model = transport.roundtrip(model, transported)
        except Exception as e:  # noqa
            return {"v": [violation("predict_does_not_reproduce_labels", {"after": transported, "error": repr(e)[:200]}, **where)], "stats": {"evals": 1}}
        if not np.array_equal(model.predict(X), orig_pred):
            return {"v": [violation("predict_does_not_reproduce_labels", {"after": transported, "what": "the copy predicts differently from the original"}, **where)],
                    "stats": {"evals": 1}}
    t = model.tree_
    v = []

    def bad(kind, **extra):
        v.append(violation(kind, dict({"X": X, "params": {k: (x if k != "kernel" else str(x)) for k, x in kw.items()},
                                       "tree": {"children_left": t.children_left, "children_right": t.children_right, "features": t.features,
                                                "thresholds": t.thresholds, "target": t.target, "depths": t.depths}, "labels_": model.labels_},
                                      **extra), **where))
    leaves = ref.tree_leaves(t)
    n_nodes = len(t.children_left)
    if not (len(t.children_right) == len(t.features) == len(t.thresholds) == len(t.target) == len(t.depths) == n_nodes == t.n_nodes):
        bad("tree_arrays_inconsistent")
        return {"v": v}
    if n_nodes != 2 * len(leaves) - 1:
        bad("nodes_not_2_leaves_minus_1", n_nodes=n_nodes, n_leaves=len(leaves))
    if p["max_leaves"] is not None and len(leaves) > p["max_leaves"]:
        bad("too_many_leaves", n_leaves=len(leaves))
    if len(leaves) > n:
        bad("more_leaves_than_samples", n_leaves=len(leaves))
    depth = max(t.depths)
    if p["max_depth"] is not None and depth > p["max_depth"]:
        bad("too_deep", depth=depth)
    # depths consistent with the structure
    for node in range(n_nodes):
        for ch in (t.children_left[node], t.children_right[node]):
            if ch != -1 and t.depths[ch] != t.depths[node] + 1:
                bad("depth_array_inconsistent", node=node)
    labs = np.asarray(model.labels_)
    if labs.shape != (n,) or sorted(set(labs.tolist())) != list(range(len(set(labs.tolist())))) or labs.max() >= p["max_clusters"]:
        bad("labels_not_contiguous_or_out_of_range")
    # reference routing of the training rows
    reach = {i: [] for i in range(n_nodes)}
    leaf_of = []
    for i in range(n):
        node = 0
        reach[0].append(i)
        while t.children_left[node] != -1:
            node = t.children_left[node] if X[i, t.features[node]] <= t.thresholds[node] else t.children_right[node]
            reach[node].append(i)
        leaf_of.append(node)
    for lf in leaves:
        if len(reach[lf]) < msl:
            bad("leaf_smaller_than_min_samples_leaf", leaf=lf, size=len(reach[lf]))
        if len(set(labs[reach[lf]].tolist())) > 1 or (reach[lf] and labs[reach[lf][0]] != t.target[lf]):
            bad("leaf_not_in_exactly_one_cluster", leaf=lf)
    for node in range(n_nodes):
        if t.children_left[node] != -1:
            if len(reach[node]) < mss:
                bad("node_with_fewer_than_min_samples_split_was_split", node=node, size=len(reach[node]), is_root=(node == 0))
            if t.thresholds[node] not in X[reach[node], t.features[node]]:
                bad("threshold_not_observed_value", node=node)
            if not (0 <= t.features[node] < d):
                bad("feature_out_of_range", node=node)
    pred = model.predict(X)
    if not np.array_equal(pred, labs):
        bad("predict_does_not_reproduce_labels", predict=pred)
    # leaves_ partition agrees with the tree leaves
    lv = np.asarray(model.leaves_)
    same_a = lv[:, None] == lv[None, :]
    lo = np.asarray(leaf_of)
    same_b = lo[:, None] == lo[None, :]
    if not np.array_equal(same_a, same_b):
        bad("leaves_attribute_disagrees_with_tree", leaves_=lv, routed=lo)
    # query lattice
    used = sorted({t.features[i] for i in range(n_nodes) if t.children_left[i] != -1})
    grids = []
    for f in range(d):
        if f in used:
            ths = sorted({t.thresholds[i] for i in range(n_nodes) if t.children_left[i] != -1 and t.features[i] == f})
            g = set()
            for th in ths:
                g.update([th, th - 1e-9, th + 1e-9, th - 0.3, th + 0.3])
            g.update([X[:, f].min() - 1, X[:, f].max() + 1])
            grids.append(sorted(g))
        else:
            grids.append([X[:, f].min() - 1, 0.123, X[:, f].max() + 1])
    Q = np.array(list(itertools.product(*grids)), dtype=float)
    if len(Q) > 4000:
        Q = Q[:: len(Q) // 4000 + 1]
    got = model.predict(Q)
    exp = np.array([ref.route(t, q)[1] for q in Q])
    if not np.array_equal(got, exp):
        bad("new_points_not_routed_to_their_region", n_wrong=int((got != exp).sum()), example=Q[np.where(got != exp)[0][0]])
    sc = model.score(X, y)
    obj = ref.objective(pred, Kref)
    if abs(sc - obj) > 1e-9 * max(1.0, abs(obj)):
        bad("score_is_not_objective_of_predictions", score=sc, objective=obj)
    seen, vs = set(), []
    for x in v:
        if x["kind"] not in seen:
            seen.add(x["kind"])
            vs.append(x)
    return {"v": vs, "nt": [(case[0], repr(sorted(cfg.items())), variant)] if len(leaves) >= 2 else [],
            "out": [(len(leaves), depth, len(set(labs.tolist())), len(used))], "stats": {"evals": 1, "queries": len(Q)},
            "sample": {"data": data_spec, "variant": variant, "params": where, "n_leaves": len(leaves), "depth": depth, "labels_": labs}}


def explorers(tier, seed):
    thorough = tier == "thorough"
    datas = []
    for n in range(1, 6):
        datas += [(s, "plain") for s in row_multisets(n, 1)]
    for n in range(1, 5):
        ms = list(row_multisets(n, 2))
        datas += [(s, "plain") for s in (ms if (thorough or n < 4) else ms[::3])]
    datas += [(s, "offset") for s in list(row_multisets(4, 2))[::7]] + [(s, "offset") for s in row_multisets(5, 1)]
    datas += [(("generic", n, d), "plain") for n in (5, 6, 7) for d in (1, 2, 3)]
    # the same multisets over adjacent doubles / near the overflow limit (only the precomputed-kernel configurations grow a tree there)
    datas += [((kind, rows), "plain") for kind in ("rows_ulp", "rows_huge") for _, rows in list(row_multisets(4, 1)) + list(row_multisets(5, 1))]
    if thorough:
        datas += [(s, "plain") for s in list(row_multisets(6, 1))] + [(s, "plain") for s in list(row_multisets(5, 2))[::11]]
    cfg2 = configs(2)
    cases = [(spec, c, variant, seed) for (spec, variant) in datas for c in cfg2]
    if thorough:
        full = configs(None)
        sub = [(s, "plain") for s in row_multisets(5, 1)] + [(s, "plain") for s in list(row_multisets(4, 2))[::5]] + \
              [(("generic", 6, 2), "plain"), (("generic", 7, 3), "plain")]
        cases += [(spec, c, variant, seed) for (spec, variant) in sub for c in full]
    big = []
    for n, d in [(80, 2), (200, 2), (600, 2), (150, 3)] + ([(1000, 2), (400, 1)] if thorough else []):
        for mc in (5, 8):
            for sl in ((2, 1), (4, 2)):
                for mlv in (None, 40, 90):
                    for kern in ("linear", "rbf"):
                        big.append((("blobs", n, d), {"explicit": dict(max_clusters=mc, max_depth=None, split_leaf=sl, max_features=None, max_leaves=mlv,
                                                                       kernel=kern, seed=0)}, "plain", seed))
    return [Explorer("large_trees", "props.c09", "fit_case", big, chunk=1, floor=20, case_timeout=1500,
                     rule="real Kauri.fit on 80..600 (thorough: 1000) overlapping-blob samples with max_clusters 5/8, min_samples_leaf 1/2 and max_leaves "
                          "None/40/90, linear and rbf kernels: trees with dozens of leaves (beyond any initial capacity an implementation might "
                          "allocate), same structural oracle; outcomes = distinct (leaves, depth, clusters, used features)"),
            Explorer("structure_and_partition", "props.c09", "fit_case", cases, chunk=64, floor=1000,
                     rule="real Kauri.fit on ALL multisets of rows over {0,1,2}^d (n<=5 d=1, n<=4 d=2; offset and generic variants) x all "
                          "configurations with <=2 parameters deviating from the default over the axes " + str({k: len(v) for k, v in AXES.items()}) +
                          (" plus the FULL product on a data subset" if thorough else "") +
                          "; non-trivial = fitted tree with >=2 leaves; outcomes = distinct (leaves, depth, clusters, used features)",
                     bound="deviation bound 2 over 7 parameter axes (quick); full product on a subset (thorough)")]
