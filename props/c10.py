"""
C10 - mini-batches partition the data and stay aligned with the affinity matrix.
Engine E3 (stateless exploration of environment answers): the answers of RandomState.permutation are the choice
points; ALL n! answers are explored for the first epoch(s) (deviation = an epoch whose permutation is scripted),
on real fits/paths of every batched model, plain and mlcl-decorated, with an affinity whose entries are unique so
that any row/column mix-up is visible.
"""
import itertools
import math

import numpy as np

from mc import models as M
from mc import seams
from mc.core import Explorer, violation

LEVEL = "model_checking"
ASSUMPTIONS = [
    "the only nondeterminism of batching is RandomState.permutation, owned by the harness (scripted answers)",
    "n <= 7; all n! permutations for n <= 4 (quick) / n <= 5 (thorough) in the first epoch, pairs of permutations over two epochs for n <= 3",
]
MODELS = ["LinearModel", "MLPModel", "KernelRIM", "SparseLinearModel", "SparseMLPModel", "CategoricalModel", "Douglas"]


def unique_affinity(n):
    A = np.zeros((n, n))
    for i in range(n):
        for j in range(n):
            A[i, j] = 100 * min(i, j) + max(i, j) + 1
    return A


def global_kernel(X, Y=None):
    X = np.asarray(X, dtype=float)
    return X @ X.T / (1.0 + float((X * X).sum()))


def _data(n, d=2):
    if n > 12:        # continuous draws: rows distinct almost surely (checked), no minimal-gap requirement
        X = np.random.RandomState(3000 + n).normal(size=(n, d))
        assert len(np.unique(X, axis=0)) == n
        return X
    X = seams.tiny_data(n, d, 3)
    return X


def run_case(case):
    family, n, bs, aff_mode, max_iter, decorated, script, mode = case
    spelling = None
    if isinstance(bs, str):                 # the same batch size spelled as a numpy integer / with the reporting flag on
        spelling, bs = bs.split(":")[0], int(bs.split(":")[1])
    X = _data(n)
    K = min(2, n)
    kw = dict(n_clusters=K, max_iter=max_iter, random_state=1)
    if spelling == "verbose":
        kw["verbose"] = True
    if family != "CategoricalModel":
        kw["batch_size"] = {"np64": np.int64, "np32": np.int32}.get(spelling, int)(bs) if bs is not None else None
    y = None
    if family == "KernelRIM":
        aff_mode = "none"
    elif aff_mode == "none":
        kw["gemini"] = "mi"
    elif aff_mode == "computed":
        kw["gemini"] = "mmd_ova"
    elif aff_mode == "dynamic_callable":
        # dynamic path: the affinity is recomputed on the selected features at every step, with a user kernel that depends on the WHOLE data
        # set it is given (normalised by the total energy), so that a per-batch computation is not the block of the full affinity
        from gemclus.gemini import MMDGEMINI
        kw["gemini"] = MMDGEMINI(kernel=global_kernel)
        kw["dynamic"] = True
    else:
        from gemclus.gemini import MMDGEMINI

        class RecMMD(MMDGEMINI):
            """real MMD GEMINI that also records the affinity blocks it is evaluated on without gradient
            (= the validation sweeps of compute_val_score)"""
            val_blocks = []

            def evaluate(self, y_pred, affinity, return_grad=False):
                if not return_grad:
                    RecMMD.val_blocks.append(np.array(affinity, copy=True))
                return super().evaluate(y_pred, affinity, return_grad)
        RecMMD.val_blocks = []
        kw["gemini"] = RecMMD(kernel="precomputed")
        y = unique_affinity(n)
    if family in ("SparseLinearModel", "SparseMLPModel"):
        kw["alpha"] = 0.5
    clone_route = isinstance(mode, str) and mode.startswith("clone_bs")
    if clone_route:
        # scikit-learn tooling: the candidate is clone(base).set_params(batch_size=...), the base having another batch size (a grid over batch_size)
        kw_base = dict(kw)
        if family != "CategoricalModel":
            kw_base["batch_size"] = (bs or n) + 2 if mode == "clone_bs_from_larger" else 1
        base = M.make(family, **kw_base)
        if decorated:
            from gemclus import add_mlcl_constraint
            base = add_mlcl_constraint(base, [(0, 1)] if n >= 2 else None, [(0, 2)] if n >= 3 else None, 0.5)
        from sklearn.base import clone
        model = clone(base)
        if family != "CategoricalModel":
            model.set_params(batch_size=bs)
        decorated = hasattr(model._batchify, "indices")          # what a clone keeps of a decoration is the library's business; its batches are not
        mode = "fit"
        case = (family, n, bs, aff_mode, max_iter, decorated, script, mode)
    else:
        model = M.make(family, _route="used_set_params" if (not script and n in (3, 5, 33)) else "ctor", **kw)
    if decorated and not clone_route:
        from gemclus import add_mlcl_constraint
        pairs_ml = [(0, 1)] if n >= 2 else None
        pairs_cl = [(0, 2)] if n >= 3 else None
        if pairs_ml is None and pairs_cl is None:
            return {"v": [], "stats": {"evals": 0}}
        model = add_mlcl_constraint(model, pairs_ml, pairs_cl, 0.5)
    spy = seams.BatchSpy(model, on_batch=(lambda rec: rec.__setitem__("sel", np.asarray(model.get_selection()).copy())) if aff_mode == "dynamic_callable" else None)
    updates = {"n": 0}

    used = []

    def cb(opt, params, grads):
        updates["n"] += 1
        if decorated:
            used.append(list(getattr(spy.orig, "indices", [])))
    rs = seams.ScriptedRandomState(7, perm_script=[list(p) for p in script])
    where = dict(family=family, n=n, batch_size=bs, affinity=aff_mode, decorated=decorated, mode=mode, spelling=spelling)
    v = []
    import gemclus.sparse._base_sparse as _bs
    real_cvs, val_calls = _bs.compute_val_score, []

    def cvs_spy(clf, Xa, ya, bsz, gem):
        val_calls.append((len(spy.log), np.asarray(clf.get_selection()).copy()))
        return real_cvs(clf, Xa, ya, bsz, gem)
    if aff_mode == "dynamic_callable":
        _bs.compute_val_score = cvs_spy
    import contextlib
    import io
    try:
        with contextlib.redirect_stdout(io.StringIO()):
            v_pre = _run_training(model, mode, X, y, K, n, rs, cb, spy, updates)
    finally:
        _bs.compute_val_score = real_cvs
    # selection at the start of each path step = selection seen by the validation call that opens the step (the second of two consecutive
    # validation calls with no training epoch in between); epochs of the initial fit use all features
    step_sel = {}
    cur = np.arange(X.shape[1])
    starts = {}
    for i_, (ep, sel_) in enumerate(val_calls):
        if i_ > 0 and val_calls[i_ - 1][0] == ep:
            starts[ep] = sel_
    for e_ in range(len(spy.log)):
        if e_ in starts:
            cur = starts[e_]
        step_sel[e_] = cur
    v.extend(v_pre)
    return _judge(case, model, spy, X, y, K, n, rs, updates, used, where, v, step_sel)


def _run_training(model, mode, X, y, K, n, rs, cb, spy, updates):
    with seams.scripted_rng(rs), seams.optimiser_spy(cb):
        if mode == "after_failed_path":
            # history: the same object first ran a path on FEWER samples that was refused half-way (dynamic mode, a penalty that empties the
            # selection; or non-finite data), then is fitted on the data under test
            import warnings
            n0 = max(K, n - 3)
            X0 = seams.tiny_data(n0, 2, 4) if n0 <= 12 else np.random.RandomState(3100 + n0).normal(size=(n0, 2))
            keep = model.get_params(deep=False) if not hasattr(model._batchify, "indices") else None
            for bad in ("empty_selection", "nan"):
                try:
                    with warnings.catch_warnings():
                        warnings.simplefilter("ignore")
                        if bad == "empty_selection":
                            model.set_params(alpha=1e4, dynamic=True) if "dynamic" in model.get_params() else None
                            model.path(X0, alpha_multiplier=5.0, min_features=1, max_patience=1)
                        else:
                            Xn = X0.copy()
                            Xn[0, 0] = np.nan
                            model.path(Xn)
                except Exception:  # noqa
                    pass
            model.set_params(alpha=0.5, dynamic=False) if "dynamic" in model.get_params() else None
            del spy.log[:]
            updates["n"] = 0
            model.fit(X, y)
        elif mode in ("refit_up", "refit_down"):
            # history: the same (possibly decorated) instance was first fitted on data of another size
            n0 = max(K, n - 2) if mode == "refit_up" else n + 2
            X0 = seams.tiny_data(n0, 2, 4) if n0 <= 12 else np.random.RandomState(3100 + n0).normal(size=(n0, 2))
            model.fit(X0, None if y is None else unique_affinity(n0))
            del spy.log[:]
            updates["n"] = 0
            model.fit(X, y)
        elif mode == "fit":
            model.fit(X, y)
        else:
            model.path(X, y, alpha_multiplier=2.0, min_features=1, max_patience=1)
    return []


def _judge(case, model, spy, X, y, K, n, rs, updates, used, where, v, step_sel):
    family, n, bs, aff_mode, max_iter, decorated, script, mode = case
    if isinstance(bs, str):
        bs = int(bs.split(":")[1])
    eff_bs = n if (bs is None or family == "CategoricalModel") else bs
    nb = math.ceil(n / eff_bs)
    # expected full affinity the batches must be cut from
    if family == "KernelRIM" or aff_mode in ("none", "dynamic_callable"):
        Afull = None
    elif aff_mode == "computed":
        Afull = X @ X.T
    else:
        Afull = y
    trained_on = spy.log[0][0]["full_X"] if spy.log and spy.log[0] else None
    states = set()
    for e, epoch in enumerate(spy.log):
        all_idx = [i for b in epoch for i in b["idx"]]
        if sorted(all_idx) != list(range(n)):
            v.append(violation("batches_do_not_partition_the_data", {"epoch": e, "batches": [b["idx"] for b in epoch]}, **where))
        if len(epoch) != nb or any(len(b["idx"]) > eff_bs for b in epoch):
            v.append(violation("wrong_batch_count_or_size", {"epoch": e, "batches": [b["idx"] for b in epoch], "expected_batches": nb,
                                                              "batch_size": eff_bs}, **where))
        for b in epoch:
            idx = b["idx"]
            if aff_mode == "dynamic_callable":
                sel = step_sel.get(e, np.arange(X.shape[1]))
                exp = global_kernel(X[:, sel])[np.ix_(idx, idx)] if len(sel) else None
                if exp is not None and (b["A"] is None or b["A"].shape != exp.shape or not np.allclose(b["A"], exp, rtol=1e-12, atol=0)):
                    v.append(violation("affinity_block_misaligned", {"epoch": e, "idx": idx, "selected_features": sel, "got": b["A"], "expected": exp}, **where))
            elif Afull is None:
                if b["A"] is not None:
                    v.append(violation("affinity_given_when_none_expected", {"epoch": e, "idx": idx}, **where))
            else:
                exp = Afull[np.ix_(idx, idx)]
                if b["A"] is None or b["A"].shape != exp.shape or not np.allclose(b["A"], exp, rtol=1e-12, atol=0):
                    v.append(violation("affinity_block_misaligned", {"epoch": e, "idx": idx, "got": b["A"], "expected": exp}, **where))
            if family == "CategoricalModel" and idx != list(range(n)):
                v.append(violation("nonparametric_model_did_not_see_full_data_in_order", {"epoch": e, "idx": idx}, **where))
            if decorated and b["decl_indices"] != idx:
                v.append(violation("decorated_indices_differ_from_batch", {"epoch": e, "idx": idx, "recorded": b["decl_indices"]}, **where))
            states.add((e, tuple(idx)))
    if mode == "path" and aff_mode == "precomputed":
        # validation sweeps of the path visit consecutive diagonal blocks j:j+bs of the precomputed affinity
        blocks = type(model.gemini).val_blocks
        for t, B in enumerate(blocks):
            j = (t % nb) * eff_bs
            exp = y[j:j + eff_bs][:, j:j + eff_bs]
            if B.shape != exp.shape or not np.array_equal(B, exp):
                v.append(violation("validation_block_misaligned", {"call": t, "got": B, "expected": exp}, **where))
                break
        if len(blocks) % nb != 0 or not blocks:
            v.append(violation("validation_sweep_incomplete", {"calls": len(blocks), "batches_per_sweep": nb}, **where))
    if family != "CategoricalModel" and mode == "fit" and rs.perm_calls != len(spy.log):
        v.append(violation("epoch_permutation_not_drawn_from_the_estimator_random_state",
                           {"permutations_drawn_from_random_state": rs.perm_calls, "epochs": len(spy.log)}, **where))
    if decorated and mode == "fit":
        # the indices recorded by the decoration must be those of the batch being trained on at the moment they are used
        flat = [b["idx"] for ep in spy.log for b in ep]
        if len(flat) == len(used) and any(a_ != b_ for a_, b_ in zip(flat, used)):
            k_ = next(i for i, (a_, b_) in enumerate(zip(flat, used)) if a_ != b_)
            v.append(violation("decorated_indices_stale_when_the_gradient_is_computed", {"step": k_, "batch": flat[k_], "recorded_at_use": used[k_]}, **where))
    if mode == "path":
        n_batches = sum(len(ep) for ep in spy.log)
        if updates["n"] != n_batches:
            v.append(violation("training_step_not_fed_by_the_batching_seam", {"optimiser_steps": updates["n"], "batches_yielded_by__batchify": n_batches,
                                                                             "why": "a step trained on data that did not come from _batchify: row order, affinity block and the indices "
                                                                                    "recorded by a must-link / cannot-link decoration are then unrelated"}, **where))
    if mode in ("fit", "refit_up", "refit_down", "after_failed_path"):
        if len(spy.log) != max_iter:
            v.append(violation("wrong_number_of_epochs", {"epochs": len(spy.log), "max_iter": max_iter}, **where))
        if updates["n"] != max_iter * nb:
            v.append(violation("wrong_number_of_optimiser_steps", {"steps": updates["n"], "expected": max_iter * nb}, **where))
        if getattr(model, "n_iter_", None) != max_iter:
            v.append(violation("n_iter_mismatch", {"n_iter_": getattr(model, "n_iter_", None), "max_iter": max_iter}, **where))
    nontrivial = nb >= 2 and n % eff_bs != 0
    seen, vs = set(), []
    for x in v:
        if x["kind"] not in seen:
            seen.add(x["kind"])
            vs.append(x)
    return {"v": vs, "nt": [case] if nontrivial else [], "out": [tuple(tuple(b["idx"]) for b in spy.log[0])] if spy.log else [],
            "stats": {"evals": 1, "traces": 1, "transitions": len(spy.log), "states": len(states) + 1,
                      "scripted_epochs": len(script)},
            "sample": {"config": where, "scripted_permutations": script, "epoch0_batches": [b["idx"] for b in spy.log[0]] if spy.log else None}}


def explorers(tier, seed):
    thorough = tier == "thorough"
    cases = []
    nmax_all = 5 if thorough else 4
    for family in MODELS:
        for n in range(1, 8):
            sizes = [None] if family == "CategoricalModel" else list(range(1, n + 3)) + [None]
            for bs in sizes:
                for aff_mode in (["none"] if family == "KernelRIM" else ["none", "computed", "precomputed"]):
                    for decorated in (False, True):
                        # bound 0: default answers everywhere
                        cases.append((family, n, bs, aff_mode, 2, decorated, (), "fit"))
                        # bound 1: every permutation as the answer of the first epoch
                        if n <= nmax_all and n >= 2 and (thorough or aff_mode != "computed" or family == "LinearModel"):
                            for p in itertools.permutations(range(n)):
                                cases.append((family, n, bs, aff_mode, 2 if n > 3 else 3, decorated, (p,), "fit"))
                        # bound 2: all pairs of answers for the first two epochs
                        if n <= 3 and n >= 2 and aff_mode == "precomputed" and (thorough or not decorated):
                            for p in itertools.permutations(range(n)):
                                for q in itertools.permutations(range(n)):
                                    cases.append((family, n, bs, aff_mode, 2, decorated, (p, q), "fit"))
    for family in MODELS:
        for n in (3, 5):
            for bs in ([None] if family == "CategoricalModel" else [1, 2, None]):
                for aff_mode in (["none"] if family == "KernelRIM" else ["none", "precomputed"]):
                    for decorated in (False, True):
                        for mode in ("refit_up", "refit_down"):
                            cases.append((family, n, bs, aff_mode, 2, decorated, (), mode))
    # size axis: dozens to hundreds of samples, batch sizes around the powers of two and around n (default answers, and the reversed
    # order / a rotation by one as scripted first answers)
    for family in MODELS:
        for n in (33, 130):
            for bs in ([None] if family == "CategoricalModel" else [7, 32, 33, 64, n - 1, n, n + 1, None]):
                for aff_mode in (["none"] if family == "KernelRIM" else ["none", "precomputed"] + (["computed"] if family == "LinearModel" else [])):
                    for decorated in (False, True):
                        cases.append((family, n, bs, aff_mode, 2, decorated, (), "fit"))
                        cases.append((family, n, bs, aff_mode, 2, decorated, (tuple(range(n - 1, -1, -1)),), "fit"))
                        cases.append((family, n, bs, aff_mode, 2, decorated, (tuple(list(range(1, n)) + [0]),), "fit"))
            if family != "CategoricalModel":
                for mode in ("refit_up", "refit_down"):
                    cases.append((family, 33, 8, "none" if family == "KernelRIM" else "precomputed", 2, True, (), mode))
    for family in MODELS:
        if family == "CategoricalModel":
            continue
        for n in (5, 7, 33):
            for sp in ("np64", "np32", "verbose"):
                for bs in (2, 3, n - 1, n + 1):
                    for decorated in (False, True):
                        for aff_mode in (["none"] if family == "KernelRIM" else ["precomputed"]):
                            cases.append((family, n, f"{sp}:{bs}", aff_mode, 2, decorated, (), "fit"))
    for family in ("SparseLinearModel", "SparseMLPModel"):
        for n in (6, 9, 33):
            for bs in (None, 4):
                for aff_mode in ("none", "computed"):
                    cases.append((family, n, bs, aff_mode, 2, False, (), "after_failed_path"))
    for family in MODELS:
        if family == "CategoricalModel":
            continue
        for n in (5, 7):
            for bs in (2, 3, None):
                for decorated in (False, True):
                    for mode_ in ("clone_bs_from_larger", "clone_bs_from_one"):
                        cases.append((family, n, bs, "none" if family == "KernelRIM" else "precomputed", 2, decorated, (), mode_))
    pc = []
    for family in ("SparseLinearModel", "SparseMLPModel"):
        for sp in ("np64", "verbose"):
            pc.append((family, 6, f"{sp}:2", "precomputed", 2, False, (), "path"))
            pc.append((family, 6, f"{sp}:4", "none", 2, True, (), "path"))
        for n in (5, 6, 40):
            for bs in (2, 3, None):
                pc.append((family, n, bs, "dynamic_callable", 2, False, (), "path"))
                if n <= 6:
                    for p in list(itertools.permutations(range(n)))[::17]:
                        pc.append((family, n, bs, "dynamic_callable", 2, False, (p,), "path"))
        for n, bs in ((40, 16), (40, None), (65, 32)):
            for aff_mode in ("none", "precomputed"):
                pc.append((family, n, bs, aff_mode, 2, False, (), "path"))
        for n in (4, 5):
            for bs in (1, 2, 3, None):
                for aff_mode in ("none", "computed", "precomputed"):
                    for decorated in (False, True):
                        pc.append((family, n, bs, aff_mode, 2, decorated, (), "path"))
                        for p in list(itertools.permutations(range(n)))[:: (1 if thorough else 5)]:
                            pc.append((family, n, bs, aff_mode, 2, decorated, (p,), "path"))
    return [
        Explorer("fit_batches", "props.c10", "run_case", cases, kind="choices", chunk=16, floor=200,
                 rule="real fit of every batched model x n in 1..7 x batch_size in 1..n+2 and None x affinity {none, computed, user precomputed with "
                      "unique entries} x {plain, decorated}; choice points = answers of RandomState.permutation: default answers (bound 0), ALL n! "
                      f"answers for the first epoch for n<={nmax_all} (bound 1), all pairs for two epochs for n<=3 (bound 2); "
                      "plus refits of the same (decorated) instance after a fit on smaller / larger data; plus n in {33,130} with batch sizes 7,32,33,64,n-1,n,n+1 "
                      "(default, reversed and rotated first answers); "
                      "non-trivial = configuration with >=2 batches and a partial last batch",
                 bound=f"deviation bound 2 completed for n<=3, bound 1 for n<={nmax_all}, bound 0 for n<=7"),
        Explorer("path_batches", "props.c10", "run_case", pc, kind="choices", chunk=8, floor=20,
                 rule="real path() of the sparse models with the same oracle on every epoch of the initial fit and of every path step",
                 bound="n in {4,5}; every (thorough) / every 5th (quick) permutation as first answer", exhaustive=thorough),
    ]
