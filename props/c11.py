"""
C11 - kernel, metric and GEMINI choices are forwarded faithfully; precomputed = named.
Engine E1: every estimator exposing kernel/metric/ovo/gemini/base_kernel x every accepted name x {no params, a
non-default parameter dictionary} x callable x precomputed x ovo x gemini {None, each name, instance}.
(a) get_gemini(): compute_affinity equals the scikit-learn kernel/metric called directly (bitwise), the callable's
    output or the user's matrix; evaluate on probe predictions equals the textbook reference for the (distance, mode)
    the hyperparameters describe;  (b) a missing precomputed matrix is an error;
(c) differential: fit / path / score with kernel=name vs kernel='precomputed', y=K_name are bitwise equal.
"""
import warnings

import numpy as np
from sklearn.metrics import pairwise_distances, pairwise_kernels

from mc import affinity as aff
from mc import configs as C
from mc import models as M
from mc import seams
from mc.core import Explorer, violation
from oracles import gemini as gref
from props.c04 import INSTANCES

ASSUMPTIONS = ["scikit-learn pairwise_kernels / pairwise_distances called directly are the meaning of kernel / metric names",
               "non-default parameter dictionaries are chosen so that dropping them changes the affinity"]
N, D = 5, 2


def _probe_P(K, seed):
    rs = np.random.RandomState(3000 + seed)
    return [rs.dirichlet(np.ones(K), size=N) for _ in range(3)]


def forward_case(case):
    name, axis, value, ovo, seed = case[:5]
    route = case[5] if len(case) > 5 else "direct"
    X = seams.tiny_data(N, D, seed + 60)
    if (axis == "kernel" and aff.needs_nonneg(value)) or (axis == "gemini" and isinstance(value, list) and value[0] == "MMD" and aff.needs_nonneg(value[1])):
        X = np.abs(X) + 0.1
    spec = {"random_state": seed, "n_clusters": 3}
    if name == "Kauri":
        spec = {"random_state": seed}
    if axis is not None:
        spec[axis] = value
    if ovo is not None:
        spec["ovo"] = ovo
    model, y, expect = C.build(name, spec, X, seed)
    where = dict(estimator=name, axis=axis, value=value if not isinstance(value, list) else "/".join(map(str, value)), ovo=ovo, route=route)
    v = []
    if route != "direct":
        # the estimator as scikit-learn's tooling uses it: a clone (GridSearchCV, cross_validate), a clone given its hyperparameters again by
        # set_params, a pickled / deep-copied copy (joblib workers, pipelines) - it still describes the same GEMINI, mode and affinity
        from sklearn.base import clone
        from mc import transport
        try:
            if route == "clone":
                model = clone(model)
            elif route == "clone_set_params":
                model = clone(model).set_params(**model.get_params(deep=False))
            else:
                model = transport.roundtrip(model, route)
        except Exception as e:  # noqa
            return {"v": [violation("gemini_is_not_the_one_the_hyperparameters_describe", {"route": route, "error": repr(e)[:300]}, **where)], "stats": {"evals": 1}}
    if name == "Kauri":
        A = model._compute_kernel(X, y)
        same = np.allclose(A, expect["A"], rtol=1e-12, atol=1e-14) if value == "callable" else np.array_equal(np.asarray(A, dtype=float), np.asarray(expect["A"], dtype=float))
        if not same:
            v.append(violation("affinity_is_not_the_named_kernel", {"got": A, "expected": expect["A"]}, **where))
        return {"v": v, "nt": [case], "stats": {"evals": 1}, "sample": {"estimator": name, "spec": spec}}
    g = model.get_gemini()
    with warnings.catch_warnings():
        warnings.simplefilter("ignore")
        A = g.compute_affinity(X, y)
    if expect["A"] is None:
        if A is not None:
            v.append(violation("affinity_computed_for_an_f_divergence", {"got": A}, **where))
    else:
        if A is None or not np.array_equal(np.asarray(A), np.asarray(expect["A"])):
            v.append(violation("affinity_is_not_the_named_kernel_or_metric", {"got": A, "expected": expect["A"]}, **where))
        if y is not None and A is not y and not np.array_equal(A, y):
            v.append(violation("precomputed_matrix_not_used_as_is", {}, **where))
    # the same estimator asked again on data with another number of features: still the named kernel/metric of *that* data,
    # and the user's parameter dictionary is left as it was given
    if name != "KernelRIM" and y is None and expect["A"] is not None and not (axis == "metric" and value == "haversine"):
        import copy
        given = {k_: copy.deepcopy(getattr(model, k_)) for k_ in ("kernel_params", "metric_params") if hasattr(model, k_)}
        X2 = seams.tiny_data(N, D + 2, seed + 63)
        if (axis == "kernel" and aff.needs_nonneg(value)) or (axis == "gemini" and isinstance(value, list) and value[0] == "MMD" and aff.needs_nonneg(value[1])):
            X2 = np.abs(X2) + 0.1
        _, _, expect2 = C.build(name, spec, X2, seed)
        if not (axis == "metric" and value == "haversine"):
            with warnings.catch_warnings():
                warnings.simplefilter("ignore")
                A2 = model.get_gemini().compute_affinity(X2, None)
            if not np.array_equal(np.asarray(A2), np.asarray(expect2["A"])):
                v.append(violation("affinity_on_second_dataset_is_not_the_named_kernel_or_metric", {"got": A2, "expected": expect2["A"]}, **where))
        for k_, val_ in given.items():
            if getattr(model, k_) != val_:
                v.append(violation("user_parameter_dictionary_modified", {"param": k_, "given": val_, "now": getattr(model, k_)}, **where))
    for P in _probe_P(3, seed):
        got = float(g(P.copy(), A))
        exp, slack = gref.ref_score_slack(P, expect["A"], expect["dist"], expect["mode"])
        if abs(got - exp) > gref.tol(expect["dist"], exp, slack):
            v.append(violation("gemini_is_not_the_one_the_hyperparameters_describe", {"P": P, "got": got, "expected": exp, "dist": expect["dist"], "mode": expect["mode"]}, **where))
            break
    # KernelRIM: base kernel between new points and the stored training points
    if name == "KernelRIM":
        model.set_params(max_iter=1).fit(X)
        Xn = seams.tiny_data(3, D, seed + 61)
        tag = spec.get("base_kernel", "linear")
        if tag == "callable":
            Kn = aff.my_kernel(Xn, X)
        else:
            sp = {s[0]: s for s in aff.KERNEL_SPECS}[tag]
            Kn = pairwise_kernels(Xn, X, metric=sp[1], **(sp[2] or {}))
        with warnings.catch_warnings():
            warnings.simplefilter("ignore")
            got = model._compute_kernel(Xn)
        if not np.array_equal(got, Kn):
            v.append(violation("kernel_rim_base_kernel_not_forwarded", {"got": got, "expected": Kn}, **where))
        from sklearn.utils.extmath import softmax
        if not np.allclose(model.predict_proba(Xn), softmax(Kn @ model.W_ + model.b_), rtol=1e-12):
            v.append(violation("kernel_rim_prediction_not_from_base_kernel", {}, **where))
    return {"v": v[:3], "nt": [case], "out": [(expect["dist"], expect["mode"])], "stats": {"evals": 1},
            "sample": {"estimator": name, "spec": spec, "dist": expect["dist"], "mode": expect["mode"]}}


def missing_case(case):
    name, seed = case
    X = seams.tiny_data(N, D, seed + 60)
    where = dict(estimator=name)
    v = []
    if name == "Kauri":
        spec = {"kernel": "pre_psd"}
    elif name in M.HAS_METRIC:
        spec = {"metric": "pre_metric"}
    elif name in M.GENERIC_GEMINI:
        spec = {"gemini": ["MMD", "pre_psd", False]}
    else:
        spec = {"kernel": "pre_psd"}
    shapes = [X] + ([seams.tiny_data(5, 5, seed + 61)] if name == "Kauri" else [])       # Kauri also on square data (n == d: X itself looks like a matrix)
    for Xs in shapes:
        model, y, _ = C.build(name, spec, Xs, seed)
        for call in ("fit", "score"):
            try:
                with warnings.catch_warnings():
                    warnings.simplefilter("ignore")
                    if call == "fit":
                        model.fit(Xs, None)
                        got = _state(model)
                    else:
                        model.fit(Xs, y)
                        got = model.score(Xs, None)
                # not refused: say what was used instead, so that only the documented fallback (linear kernel) is a known finding
                fallback = "other"
                if name == "Kauri":
                    lin, _, _ = C.build("Kauri", {"kernel": "linear"}, Xs, seed)
                    with warnings.catch_warnings():
                        warnings.simplefilter("ignore")
                        if call == "fit":
                            ref_ = _state(lin.fit(Xs))
                            same = all(k in got and np.array_equal(ref_[k], got[k]) for k in ref_)
                        else:
                            lin.tree_, lin.labels_ = model.tree_, model.labels_
                            lin.n_features_in_ = model.n_features_in_
                            same = abs(lin.score(Xs) - got) <= 1e-9 * max(1.0, abs(got))
                    fallback = "linear_kernel" if same else "other"
                v.append(violation("missing_precomputed_matrix_is_not_an_error", {"call": call, "used_instead": fallback, "shape": list(Xs.shape)},
                                   call=call, fallback=fallback, **where))
            except (ValueError, TypeError):
                pass
    return {"v": v, "nt": [case], "stats": {"evals": 2 * len(shapes)}, "sample": {"estimator": name, "spec": spec}}


def _state(model):
    out = {}
    for k, val in sorted(vars(model).items()):
        if k.endswith("_") and not k.startswith("_"):
            if isinstance(val, np.ndarray):
                out[k] = val.copy()
            elif k == "cut_points_list_":
                out[k] = np.concatenate([c for _, c in val])
            elif k == "tree_":
                out[k] = np.array([repr((val.children_left, val.children_right, val.features, val.thresholds, val.target))])
    return out


def differential_case(case):
    name, tag, mode, bs, ovo, seed = case
    n = 8
    X = seams.tiny_data(n, 3, seed + 62)
    if aff.needs_nonneg(tag):
        X = np.abs(X) + 0.1
    is_metric = name in M.HAS_METRIC or (name in M.GENERIC_GEMINI and tag in [s[0] for s in aff.METRIC_SPECS])
    common = {"random_state": seed, "max_iter": 3}
    if name == "Kauri":
        common = {"random_state": seed, "max_clusters": 3}
    if bs is not None:
        common["batch_size"] = bs
    if name in M.GENERIC_GEMINI:
        fam = "W" if is_metric else "MMD"
        named = dict(common, gemini=[fam, tag, ovo])
        pre = dict(common, gemini=[fam, "pre_metric" if is_metric else "pre_psd", ovo])
    elif name in M.HAS_METRIC:
        named = dict(common, metric=tag, ovo=ovo)
        pre = dict(common, metric="pre_metric", ovo=ovo)
    elif name == "Kauri":
        named = dict(common, kernel=tag)
        pre = dict(common, kernel="pre_psd")
    else:
        named = dict(common, kernel=tag, ovo=ovo)
        pre = dict(common, kernel="pre_psd", ovo=ovo)
    if name in M.SPARSE:
        named["alpha"] = pre["alpha"] = 0.3
    m1, y1, e1 = C.build(name, named, X, seed)
    m2, _, _ = C.build(name, pre, X, seed)
    Kname = e1["A"]
    where = dict(estimator=name, affinity=tag, mode=mode, batch_size=bs, ovo=ovo)
    v = []
    with warnings.catch_warnings():
        warnings.simplefilter("ignore")
        if mode == "path":
            r1 = m1.path(X, y1, alpha_multiplier=2.0, min_features=1, max_patience=2)
            r2 = m2.path(X, Kname, alpha_multiplier=2.0, min_features=1, max_patience=2)
            for i, (a, b) in enumerate(zip(r1[1:], r2[1:])):
                # validation scores are recomputed from X_batch[:, selection] (a differently laid out copy): BLAS may differ in the
                # last bit, and an MMD of ~0 carries sqrt(rounding) noise; weights and alphas stay bitwise (below / index 2)
                a_, b_ = np.asarray(a, dtype=float), np.asarray(b, dtype=float)
                same = a_.shape == b_.shape and (np.array_equal(a_, b_, equal_nan=True) if i >= 2 else np.allclose(a_, b_, rtol=1e-9, atol=1e-7, equal_nan=True))
                if not same:
                    v.append(violation("path_history_differs_named_vs_precomputed", {"history": i, "named": a, "precomputed": b}, **where))
            for a, b in zip(r1[0], r2[0]):
                if not np.array_equal(a, b):
                    v.append(violation("path_best_weights_differ_named_vs_precomputed", {}, **where))
                    break
        else:
            m1.fit(X, y1)
            if name == "Kauri":
                # history: the precomputed model was first used without its matrix (documented fallback / refusal), fitted and scored
                for call_ in (lambda: m2.fit(X), lambda: m2.score(X)):
                    try:
                        call_()
                    except Exception:  # noqa
                        pass
            m2.fit(X, Kname)
            # the matrix must also reach the training when it is handed to fit_predict (same fitted model, same labels)
            if name != "KernelRIM":
                m4, _, _ = C.build(name, pre, X, seed)
                try:
                    lab4 = m4.fit_predict(X, Kname)
                    s4, s2_ = _state(m4), _state(m2)
                    bad4 = next((k for k in s2_ if k not in s4 or not np.array_equal(s2_[k], s4[k])), None)
                    if bad4 is not None or not np.array_equal(lab4, m2.labels_):
                        v.append(violation("fit_predict_ignores_the_precomputed_matrix", {"attribute": bad4, "fit_predict_labels": lab4, "fit_labels": m2.labels_}, **where))
                except Exception as e:  # noqa
                    v.append(violation("fit_predict_ignores_the_precomputed_matrix", {"error": repr(e)[:200]}, **where))
        s1, s2 = _state(m1), _state(m2)
        for k in s1:
            if k not in s2 or not np.array_equal(s1[k], s2[k]):
                v.append(violation("fitted_model_differs_named_vs_precomputed", {"attribute": k, "named": s1[k], "precomputed": s2.get(k)}, attribute=k, **where))
                break
        sc1, sc2 = m1.score(X, y1), m2.score(X, Kname)
        if not abs(sc1 - sc2) <= 1e-9 * max(1.0, abs(sc1)) + 1e-7:
            v.append(violation("score_differs_named_vs_precomputed", {"named": sc1, "precomputed": sc2}, **where))
        # a named (or callable) kernel / metric is what the model trains and scores with even when something is passed as y
        # (documented: y is only read with 'precomputed'): a decoy matrix and a label-like vector
        if y1 is None and mode == "fit":
            rs = np.random.RandomState(seed + 5)
            B = rs.normal(size=(n, n))
            decoys = {"other_matrix": np.abs(B + B.T) * (1 - np.eye(n)) if is_metric else B @ B.T, "label_vector": np.arange(n) % 2}
            for dname, decoy in decoys.items():
                m3, _, _ = C.build(name, named, X, seed)
                try:
                    m3.fit(X, decoy)
                    s3 = _state(m3)
                    bad = next((k for k in s1 if k not in s3 or not np.array_equal(s1[k], s3[k])), None)
                    sc3 = m3.score(X, decoy)
                except Exception as e:  # noqa
                    v.append(violation("named_affinity_fails_when_y_is_given", {"y": dname, "error": repr(e)[:200]}, y=dname, **where))
                    continue
                if bad is not None:
                    v.append(violation("named_affinity_replaced_by_y", {"y": dname, "attribute": bad, "without_y": s1[bad], "with_y": s3.get(bad)}, y=dname, **where))
                elif not sc3 == m1.score(X):
                    v.append(violation("named_affinity_replaced_by_y", {"y": dname, "call": "score", "without_y": m1.score(X), "with_y": sc3}, y=dname, **where))
    return {"v": v[:3], "nt": [case], "stats": {"evals": 1}, "out": [(name, float(sc1))], "sample": {"estimator": name, "named": named, "precomputed": pre}}


def int_data_case(case):
    """The user's precomputed matrix is used AS GIVEN whatever container the data comes in: count data stored as integers (or a nested list of
    ints, float32) together with a float matrix gives the same affinity, fitted model, path and score as the float64 copy of the data."""
    name, form, mode, seed = case
    n = 8
    Xf = np.round(seams.tiny_data(n, 3, seed + 66) * 4) + 0.0        # (+0.0: no negative zeros, which integers cannot represent)
    Xin = {"int64": Xf.astype(np.int64), "int32": Xf.astype(np.int32), "list_of_int": Xf.astype(int).tolist(), "float32": Xf.astype(np.float32)}[form]
    is_metric = name in M.HAS_METRIC or name == "Douglas"
    rs = np.random.RandomState(seed + 67)
    B = rs.normal(size=(n, n))
    Kmat = np.abs(B + B.T) * (1 - np.eye(n)) + 0.0 if is_metric else B @ B.T / n + 0.25 * np.eye(n)      # certainly not integer valued
    common = {"random_state": seed, "max_iter": 3} if name != "Kauri" else {"random_state": seed, "max_clusters": 3}
    if name in M.GENERIC_GEMINI:
        spec = dict(common, gemini=["W" if is_metric else "MMD", "pre_metric" if is_metric else "pre_psd", False])
    elif name in M.HAS_METRIC:
        spec = dict(common, metric="pre_metric")
    else:
        spec = dict(common, kernel="pre_psd")
    if name in M.SPARSE:
        spec["alpha"] = 0.3
    where = dict(estimator=name, affinity="precomputed", mode=mode, data=form)
    v = []
    with warnings.catch_warnings():
        warnings.simplefilter("ignore")
        ma, _, _ = C.build(name, spec, Xf, seed)
        mb, _, _ = C.build(name, spec, Xf, seed)
        if name != "Kauri":
            g = ma.get_gemini()
            try:
                A = np.asarray(g.compute_affinity(Xin, Kmat), dtype=float)
                if A.shape != Kmat.shape or not np.array_equal(A, Kmat):
                    v.append(violation("precomputed_matrix_not_used_as_given", {"data": form, "given": Kmat[:2, :3], "used": A[:2, :3]}, **where))
            except Exception as e:  # noqa
                v.append(violation("precomputed_matrix_not_used_as_given", {"data": form, "error": repr(e)[:200]}, **where))
        if mode == "path":
            ra = ma.path(Xin, Kmat, alpha_multiplier=2.0, min_features=1, max_patience=2)
            rb = mb.path(Xf, Kmat, alpha_multiplier=2.0, min_features=1, max_patience=2)
            tol = 1e-5 if form == "float32" else 0.0
            for i, (a, b) in enumerate(zip(ra[1:], rb[1:])):
                a_, b_ = np.asarray(a, dtype=float), np.asarray(b, dtype=float)
                if a_.shape != b_.shape or not np.allclose(a_, b_, rtol=max(tol, 1e-9), atol=max(tol, 1e-7), equal_nan=True):
                    v.append(violation("path_history_differs_named_vs_precomputed", {"history": i, "data_as_" + form: a, "data_as_float64": b}, **where))
        else:
            ma.fit(Xin, Kmat)
            mb.fit(Xf, Kmat)
            if form != "float32":
                sa, sb = _state(ma), _state(mb)
                bad = next((k for k in sb if k not in sa or not np.array_equal(sa[k], sb[k])), None)
                if bad is not None:
                    v.append(violation("fitted_model_differs_named_vs_precomputed", {"attribute": bad, "data_as_" + form: sa.get(bad), "data_as_float64": sb[bad]}, attribute=bad, **where))
        sc_a, sc_b = ma.score(Xin, Kmat), mb.score(Xf, Kmat)
        if form != "float32" and not abs(sc_a - sc_b) <= 1e-9 * max(1.0, abs(sc_b)) + 1e-7:
            v.append(violation("score_differs_named_vs_precomputed", {"data_as_" + form: sc_a, "data_as_float64": sc_b}, **where))
    return {"v": v[:3], "nt": [case], "stats": {"evals": 1}, "sample": {"estimator": name, "data": form, "mode": mode}}


def reconfigured_case(case):
    """History: an estimator that has been fitted and scored with one kernel / metric / mode is re-parameterised with set_params and used
    again: it must train and score exactly like a fresh estimator built with the new hyperparameters."""
    name, first, second, seed = case
    X = seams.tiny_data(7, 3, seed + 64)
    if any(aff.needs_nonneg(t.get("kernel", "linear")) for t in (first, second)):
        X = np.abs(X) + 0.1
    common = {"random_state": seed, "max_iter": 3}
    used, y1, _ = C.build(name, dict(common, **first), X, seed)
    fresh, y2, exp2 = C.build(name, dict(common, **second), X, seed)
    where = dict(estimator=name, first=str(first), second=str(second))
    v = []
    with warnings.catch_warnings():
        warnings.simplefilter("ignore")
        used.fit(X, y1)
        used.score(X, y1)
        valid = fresh.get_params(deep=False)
        changed = {k_: valid[k_] for k_ in ("kernel", "kernel_params", "metric", "metric_params", "ovo", "gemini") if k_ in valid}
        used.set_params(**changed)
        used.fit(X, y2)
        fresh.fit(X, y2)
        s1, s2 = _state(used), _state(fresh)
        for k_ in s2:
            if k_ not in s1 or not np.array_equal(s1[k_], s2[k_]):
                v.append(violation("reconfigured_estimator_differs_from_fresh_one", {"attribute": k_}, attribute=k_, **where))
                break
        a, b = used.score(X, y2), fresh.score(X, y2)
        if not a == b:
            v.append(violation("reconfigured_estimator_scores_differently", {"reconfigured": a, "fresh": b}, **where))
        if y2 is not None:
            for call in ("fit", "score"):
                try:
                    getattr(used, call)(X, None)
                    v.append(violation("missing_precomputed_matrix_is_not_an_error", {"call": call, "after": "set_params(kernel/metric='precomputed')"}, call=call, **where))
                except (ValueError, TypeError):
                    pass
    return {"v": v[:3], "nt": [case], "stats": {"evals": 1}, "sample": {"estimator": name, "first": first, "then": second}}


def explorers(tier, seed):
    thorough = tier == "thorough"
    c4 = []
    for name in ("LinearMMD", "MLPMMD", "SparseLinearMMD", "SparseMLPMMD", "CategoricalMMD"):
        for first, second in (({"kernel": "linear"}, {"kernel": "rbf_g"}), ({"kernel": "rbf_g"}, {"kernel": "poly_p", "ovo": True}), ({"kernel": "linear"}, {"kernel": "pre_psd"}),
                              ({"kernel": "rbf_g", "ovo": True}, {"kernel": "rbf_g"}), ({"kernel": "poly_p"}, {"kernel": "poly_c0"})):
            c4.append((name, first, second, seed))
    for name in M.HAS_METRIC:
        for first, second in (({"metric": "euclidean"}, {"metric": "l1"}), ({"metric": "l1", "ovo": True}, {"metric": "cosine"}), ({"metric": "euclidean"}, {"metric": "pre_metric"})):
            c4.append((name, first, second, seed))
    for name in M.GENERIC_GEMINI:
        for first, second in (({"gemini": "mmd_ova"}, {"gemini": "tv_ovo"}), ({"gemini": "mi"}, {"gemini": ["MMD", "rbf_g", True]}), ({"gemini": ["W", "l1", False]}, {"gemini": "wasserstein_ovo"})):
            c4.append((name, first, second, seed))
    c1 = []
    ktags = [s[0] for s in aff.KERNEL_SPECS]
    for name in ("LinearMMD", "MLPMMD", "SparseLinearMMD", "SparseMLPMMD", "CategoricalMMD"):
        for tag in ktags:
            for ovo in (False, True):
                c1.append((name, "kernel", tag, ovo, seed))
    for name in M.HAS_METRIC:
        for tag in [s[0] for s in C.METRIC_SPECS_EST]:
            for ovo in (False, True):
                c1.append((name, "metric", tag, ovo, seed))
    for name in M.GENERIC_GEMINI:
        for g in M.ALL_GEMINIS + [None] + INSTANCES + [["MMD", t, o] for t in ktags for o in (False, True)] + \
                [["W", s[0], o] for s in aff.METRIC_SPECS for o in (False, True)]:
            c1.append((name, "gemini", g, None, seed))
    for name in ("RIM", "SparseLinearMI"):
        c1.append((name, None, None, None, seed))
    for tag in ["linear", "rbf", "rbf_g", "poly_p", "polynomial", "sigmoid_p", "laplacian_g", "cosine", "callable"]:
        c1.append(("KernelRIM", "base_kernel", tag, None, seed))
    for tag in [s[0] for s in aff.KERNEL_SPECS if s[2] is None and s[0] != "callable"] + ["callable"]:
        c1.append(("Kauri", "kernel", tag, None, seed))
    routes = ["clone", "clone_set_params", "pickle", "deepcopy", "cloudpickle"]
    c1 += [c + (routes[i % len(routes)],) for i, c in enumerate(list(c1))]
    c2 = [(name, seed) for name in M.HAS_KERNEL + M.HAS_METRIC + ["LinearModel", "MLPModel", "Douglas"]]
    c3 = []
    diff_k = ["linear", "rbf_g", "poly_p", "sigmoid_p", "cosine"] + (["laplacian_g", "rbf", "polynomial", "additive_chi2"] if thorough else [])
    diff_m = ["euclidean", "l1", "cosine"] + (["manhattan", "l2"] if thorough else [])
    for name in ("LinearMMD", "MLPMMD", "SparseLinearMMD", "SparseMLPMMD", "CategoricalMMD", "LinearModel", "SparseMLPModel", "Douglas"):
        for tag in diff_k:
            for ovo in (False, True):
                for bs in ((None, 3) if name != "CategoricalMMD" else (None,)):
                    for mode in (("fit", "path") if name in M.SPARSE else ("fit",)):
                        c3.append((name, tag, mode, bs, ovo, seed))
    for name in M.HAS_METRIC + ["MLPModel"]:
        for tag in diff_m:
            for ovo in (False, True):
                for bs in ((None, 3) if name not in M.NONPARAMETRIC else (None,)):
                    c3.append((name, tag, "fit", bs, ovo, seed))
    for tag in ["linear", "rbf", "polynomial", "sigmoid", "laplacian", "cosine"]:
        c3.append(("Kauri", tag, "fit", None, False, seed))
    c5 = []
    for name in ["LinearMMD", "MLPMMD", "SparseLinearMMD", "SparseMLPMMD", "CategoricalMMD", "Kauri", "LinearModel", "SparseMLPModel", "Douglas"] + M.HAS_METRIC:
        for form in ("int64", "int32", "list_of_int", "float32"):
            for mode in (("fit", "path") if name in M.SPARSE else ("fit",)):
                c5.append((name, form, mode, seed))
    return [
        Explorer("precomputed_with_any_data_container", "props.c11", "int_data_case", c5, chunk=4, floor=20,
                 rule="a float precomputed kernel / distance matrix handed over with count data stored as int64 / int32 / nested list of ints / float32: "
                      "compute_affinity returns the matrix as given; fit, path and score equal those obtained with the float64 copy of the data"),
        Explorer("forwarding", "props.c11", "forward_case", c1, chunk=8, floor=100,
                 rule="every estimator exposing kernel/metric/ovo/gemini/base_kernel x every accepted value (names with and without parameter dictionaries, "
                      "callables, precomputed, both ovo flags, gemini None / 13 names / instances): compute_affinity == scikit-learn called directly (bitwise), "
                      "evaluate on 3 probe predictions == textbook reference of the described (distance, mode)"),
        Explorer("missing_precomputed", "props.c11", "missing_case", c2, chunk=1, floor=5,
                 rule="kernel/metric 'precomputed' without a matrix must raise in fit and in score"),
        Explorer("named_vs_precomputed", "props.c11", "differential_case", c3, chunk=4, floor=50,
                 rule="fit / path / score with a named kernel or metric vs the same matrix given as 'precomputed': fitted attributes, path histories, best "
                      "weights and scores bitwise equal (gradient models with both batch modes, and Kauri)"),
        Explorer("reconfigured", "props.c11", "reconfigured_case", c4, chunk=2, floor=20,
                 rule="history: fit + score with one kernel / metric / ovo / gemini, set_params to another, fit + score again: bitwise equal to a fresh estimator "
                      "built with the new hyperparameters; a missing precomputed matrix is an error after switching to 'precomputed'"),
    ]
