"""
C12 - fitting is reproducible, history-independent and free of side effects.
Engine E2: explicit-state search over call histories on real estimators.  A state is the history reaching it (replayed on a
fresh real object); canonical key = (class, get_params repr, digest of every fitted attribute incl. optimiser moments) -
merged states have the same futures because every public method reads only those fields.  In every state the differential
oracle runs:  state ; fit(X1)  ==  fresh estimator with the same hyperparameters ; fit(X1)   (and the same for path on sparse
models), the caller's arrays are bit-identical and still writeable, get_params changed only through set_params, and
get_params / set_params / clone round-trip.
"""
import collections
import hashlib
import warnings

import numpy as np
from sklearn.base import clone

from mc import configs as C
from mc import models as M
from mc import seams
from mc.core import Explorer, violation

LEVEL = "model_checking"
ASSUMPTIONS = ["histories of depth <= 2 (quick) / 4 (thorough) over an alphabet of ~10 public calls; data sets X1 (5x2) and X2 (7x3)"]

SPECS = {
    "LinearModel": [{}, {"gemini": "wasserstein_ova", "batch_size": 2}, {"batch_size": 2, "_mlcl": True}], "LinearMMD": [{"kernel": "rbf_g"}, {"kernel": "pre_psd"}, {"kernel": "pre_roundsym", "batch_size": 5}],
    "LinearWasserstein": [{"ovo": True}, {"metric": "pre_rounddist"}], "RIM": [{"batch_size": 3}], "KernelRIM": [{}, {"base_kernel": "rbf_g", "batch_size": 2}, {"base_kernel": "callable", "_base_kernel_params": {"gamma": 0.3}}],
    "MLPModel": [{}, {"gemini": "mi", "batch_size": 2}, {"batch_size": 3, "_mlcl": True}], "MLPMMD": [{"ovo": True}], "MLPWasserstein": [{"metric": "l1"}],
    "SparseLinearModel": [{"alpha": 0.3}, {"alpha": 0.3, "dynamic": True, "batch_size": 2}, {"alpha": 0.3, "batch_size": 2, "_mlcl": True}], "SparseLinearMMD": [{"alpha": 0.3, "groups": [[0, 1]]}, {"alpha": 0.3, "groups": [[1]]}, {"alpha": 0.3, "kernel": "pre_psd", "dynamic": True}],
    "SparseLinearMI": [{"alpha": 0.3}, {"alpha": 0.0}], "SparseMLPModel": [{"alpha": 0.3}], "SparseMLPMMD": [{"alpha": 0.3, "batch_size": 3}, {"alpha": 0.3, "kernel": "pre_psd", "dynamic": True, "ovo": True}],
    "CategoricalModel": [{}], "CategoricalMMD": [{"kernel": "rbf"}], "CategoricalWasserstein": [{}, {"metric": "pre_rounddist", "ovo": True}],
    "Kauri": [{}, {"max_features": 1, "max_clusters": 4}, {"max_clusters": 6, "max_leaves": 9}, {"kernel": "pre_psd"}], "Douglas": [{}, {"n_cuts": 2, "batch_size": 2}],
}
SET_EVENTS = {
    "gradient": [("max_iter", 2), ("learning_rate", 0.05), ("n_clusters", 2), ("solver", "sgd")],
    "batched": [("batch_size", 3)],
    "Kauri": [("max_clusters", 2), ("min_samples_leaf", 2), ("max_depth", 1), ("random_state", 5)],
    "sparse": [("alpha", 0.05), ("alpha", 0.0)],
}


def _build(name, spec, X, seed):
    """configs.build + optional must-link/cannot-link decoration (spec key _mlcl)."""
    spec = dict(spec)
    decorated = spec.pop("_mlcl", False)
    m, y, e = C.build(name, spec, X, seed)
    if decorated:
        from gemclus import add_mlcl_constraint
        m = add_mlcl_constraint(m, [(0, 1)], [(2, 3), (1, 4)], 0.5)
    return m, y, e


def _digest_state(obj):
    """Digest of every instance attribute that is not a constructor hyperparameter."""
    h = hashlib.blake2b(digest_size=12)
    params = set(obj.get_params(deep=False))

    def feed(x):
        if isinstance(x, np.ndarray):
            h.update(str(x.dtype).encode() + str(x.shape).encode() + np.ascontiguousarray(x).tobytes())
        elif isinstance(x, (list, tuple)):
            h.update(b"[")
            for y in x:
                feed(y)
            h.update(b"]")
        elif isinstance(x, dict):
            for k in sorted(x, key=repr):
                h.update(repr(k).encode())
                feed(x[k])
        elif hasattr(x, "__dict__") and not callable(x):
            h.update(type(x).__name__.encode())
            feed({k: v for k, v in vars(x).items()})
        elif callable(x):
            h.update(b"<callable>")
        else:
            h.update(repr(x).encode())
    for k in sorted(vars(obj)):
        if k in params or k in ("_env",):
            continue
        h.update(k.encode())
        feed(vars(obj)[k])
    return h.hexdigest()


def _diff_state(a, b):
    """Names of the non-hyperparameter attributes that differ between two estimators."""
    out = []
    pa = set(a.get_params(deep=False))
    for k in sorted(set(vars(a)) | set(vars(b))):
        if k in pa:
            continue
        if k not in vars(a) or k not in vars(b):
            out.append(k)
            continue
        ha, hb = hashlib.blake2b(digest_size=8), hashlib.blake2b(digest_size=8)

        class W:
            pass
        wa, wb = W(), W()
        wa.x, wb.x = vars(a)[k], vars(b)[k]
        wa.get_params = wb.get_params = lambda deep=False: {}
        if _digest_state(wa) != _digest_state(wb):
            out.append(k)
    return out


def _params_repr(m):
    return repr(sorted((k, repr(v)) for k, v in m.get_params(deep=False).items()))


CRASHED_DYNAMIC_PATH = []


def _apply(m, ev, D):
    """Apply one event; returns (model after the event, event kind)."""
    kind = ev[0]
    with warnings.catch_warnings():
        warnings.simplefilter("ignore")
        try:
            if kind == "fit1":
                m.fit(D["X1"], D["y1"])
            elif kind == "fit2":
                m.fit(D["X2"], D["y2"])
            elif kind == "fit3":
                m.fit(D["X3"], D["y3"])
            elif kind == "fit1_noy":          # precomputed configuration called without its matrix: refused, or the documented fallback
                m.fit(D["X1"])
            elif kind == "score1_noy":
                m.score(D["X1"])
            elif kind == "fit_predict1":
                m.fit_predict(D["X1"], D["y1"])
            elif kind == "predict1":
                m.predict(D["X1"])
            elif kind == "proba1":
                m.predict_proba(D["X1"])
            elif kind == "score1":
                m.score(D["X1"], D["y1"])
            elif kind == "path1":
                m.path(D["X1"], D["y1"], alpha_multiplier=3.0, min_features=1, max_patience=1)
            elif kind == "set":
                m.set_params(**{ev[1]: ev[2]})
            elif kind == "clone":
                m = clone(m)
            elif kind == "fit_bad":           # refused calls: non-finite data, data of another width for predict; with warnings as errors
                Xb = D["X1"].copy()
                Xb[0, 0] = np.nan
                with warnings.catch_warnings():
                    warnings.simplefilter("error")
                    m.fit(Xb, D["y1"])
            elif kind == "predict_bad":
                m.predict(D["X1"][:, :1])
            elif kind == "path_bad":
                with warnings.catch_warnings():
                    warnings.simplefilter("error")
                    m.path(D["X1"], D["y1"], alpha_multiplier=0.5, min_features=0, keep_threshold=2.0, max_patience=1)
            elif kind == "pickle":
                import pickle
                m = pickle.loads(pickle.dumps(m))
            elif kind == "deepcopy":
                import copy
                m = copy.deepcopy(m)
        except Exception as e:  # noqa
            # e.g. predicting before fit: refusing is fine, the history goes on
            if kind == "path1" and "0 feature(s)" in str(e):
                CRASHED_DYNAMIC_PATH.append(1)      # KF-C07-1: the path died half-way (dynamic mode, empty selection)
    return m


def history_search(case):
    name, si, depth, seed = case
    spec = dict(SPECS[name][si], random_state=seed)
    X1 = seams.tiny_data(5, 2, seed + 70)
    X2 = seams.tiny_data(7, 3, seed + 71)
    if name in M.SPARSE and "groups" in spec and spec["groups"] == [[0, 1]]:
        X2 = seams.tiny_data(7, 2, seed + 71)

    X3 = seams.tiny_data(5, 2, seed + 72) * 2.0          # same shape as X1, other values (stale caches keyed by shape)

    decorated = bool(spec.get("_mlcl"))

    def fresh(overrides=None):
        m, y1, _ = _build(name, spec, X1, seed)
        _, y2, _ = _build(name, spec, X2, seed)
        if overrides:
            m.set_params(**overrides)
        return m, y1, y2
    m0, y1, y2 = fresh()
    y3 = None if y1 is None else _build(name, spec, X3, seed + 1)[1]
    pre_violations = []
    if not decorated:
        # hyperparameters are stored as given: an estimator built by its constructor and one built with the library defaults and then
        # set_params(...) with the same values report the same get_params(), and both survive clone()
        try:
            m_set, _, _ = _build(name, dict(spec, _route="set_params"), X1, seed)
            if _params_repr(m_set) != _params_repr(m0):
                pre_violations.append(("constructor_and_set_params_store_different_hyperparameters", {"constructor": _params_repr(m0), "set_params": _params_repr(m_set)}))
            for tag_, mm in (("constructor", m0), ("set_params", m_set)):
                if _params_repr(clone(mm)) != _params_repr(mm):
                    pre_violations.append(("clone_does_not_round_trip_hyperparameters", {"built_by": tag_, "original": _params_repr(mm)}))
        except Exception as e:  # noqa
            pre_violations.append(("clone_does_not_round_trip_hyperparameters", {"error": repr(e)[:300]}))
    D = {"X1": X1, "X2": X2, "X3": X3, "y1": y1, "y2": y2, "y3": y3}
    pristine = {k: (None if v is None else v.copy()) for k, v in D.items()}
    events = [("fit1",), ("fit2",), ("fit3",), ("fit_predict1",), ("predict1",), ("score1",), ("fit_bad",), ("predict_bad",)]
    if y1 is not None:
        events += [("fit1_noy",), ("score1_noy",)]
    if not decorated:
        events.append(("clone",))        # clone() returns an undecorated estimator by construction
        events += [("pickle",), ("deepcopy",)]   # a copy of the (fitted) estimator is the same estimator: pure events like the queries
    if name != "Kauri":
        events.append(("proba1",))
        events += [("set",) + e for e in SET_EVENTS["gradient"]]
        if name in M.BATCHED:
            events += [("set",) + e for e in SET_EVENTS["batched"]]
        if name in M.SPARSE:
            events += [("set",) + e for e in SET_EVENTS["sparse"]] + [("path1",), ("path_bad",)]
            events += [("set", "groups", None if m0.groups is not None else [[0, 1]]), ("set", "dynamic", not m0.dynamic)] if hasattr(m0, "groups") and name != "SparseLinearMI" else \
                      [("set", "groups", None if getattr(m0, "groups", None) is not None else [[0, 1]])]
        if hasattr(m0, "ovo"):
            events.append(("set", "ovo", not m0.ovo))
        if hasattr(m0, "kernel") and y1 is None:
            events.append(("set", "kernel", "cosine" if m0.kernel != "cosine" else "linear"))
        if hasattr(m0, "metric") and y1 is None:
            events.append(("set", "metric", "cosine" if m0.metric != "cosine" else "l1"))
        if hasattr(m0, "gemini") and isinstance(m0.gemini, str):
            events.append(("set", "gemini", "tv_ova" if m0.gemini != "tv_ova" else "mi"))
    else:
        events += [("set",) + e for e in SET_EVENTS["Kauri"]]
        if y1 is None:
            events.append(("set", "kernel", "rbf" if m0.kernel != "rbf" else "linear"))
    # every remaining model-specific hyperparameter gets one alternative value (a value remembered from an earlier fit or from construction
    # must not survive set_params)
    for par, alt in (("reg", 0.7), ("base_kernel", "rbf"), ("n_hidden_dim", 3), ("M", 2.0), ("temperature", 0.5), ("n_cuts", 2),
                     ("max_features", 1), ("max_leaves", 3), ("min_samples_split", 3)):
        if par in m0.get_params(deep=False) and m0.get_params(deep=False)[par] != alt:
            events.append(("set", par, alt))
    where = dict(estimator=name, spec=str(SPECS[name][si]))
    v = []
    seen_kinds = set()

    def report(kind, detail, **extra):
        crashed = bool(CRASHED_DYNAMIC_PATH)
        if (kind, crashed) not in seen_kinds:
            seen_kinds.add((kind, crashed))
            v.append(violation(kind, detail, **dict(where, after_crashed_dynamic_path=crashed, **extra)))
    del CRASHED_DYNAMIC_PATH[:]
    for kind_, detail_ in pre_violations:
        report(kind_, detail_)

    def replay(hist):
        del CRASHED_DYNAMIC_PATH[:]
        m, _, _ = fresh()
        overrides = {}
        for ev in hist:
            before = _params_repr(m)
            m = _apply(m, ev, D)
            if ev[0] == "set":
                overrides[ev[1]] = ev[2]
            elif _params_repr(m) != before:
                report("hyperparameters_modified_by_a_call", {"history": hist, "event": ev, "before": before, "after": _params_repr(m)},
                       event=ev[0])
            for k in D:
                if pristine[k] is not None and (not np.array_equal(D[k], pristine[k]) or not D[k].flags.writeable):
                    report("caller_array_modified", {"history": hist, "event": ev, "array": k}, event=ev[0])
                    D[k] = pristine[k].copy()
        return m, overrides
    seen = set()
    frontier = collections.deque([()])
    stats = collections.Counter()
    while frontier:
        hist = frontier.popleft()
        m, overrides = replay(hist)
        key = (type(m).__name__, _params_repr(m), _digest_state(m))
        stats["transitions"] += 1
        if key in seen:
            continue
        seen.add(key)
        stats["states"] += 1
        stats["max_depth"] = max(stats["max_depth"], len(hist))
        # --- oracle in this state
        ref, _, _ = fresh(overrides)
        with warnings.catch_warnings():
            warnings.simplefilter("ignore")
            ok_a = ok_b = True
            try:
                m.fit(X1, y1)
            except Exception as e:  # noqa
                ok_a = repr(e)
            try:
                ref.fit(X1, y1)
            except Exception as e:  # noqa
                ok_b = repr(e)
        stats["traces"] += 1
        if (ok_a is True) != (ok_b is True):
            report("fit_outcome_depends_on_history", {"history": hist, "after_history": ok_a, "fresh": ok_b})
        elif ok_a is True:
            if _params_repr(m) != _params_repr(ref):
                report("fit_modifies_hyperparameters_depending_on_history", {"history": hist, "after": _params_repr(m), "fresh": _params_repr(ref)})
            d = _diff_state(m, ref)
            if d:
                report("fitted_model_depends_on_history", {"history": hist, "differing_attributes": d}, attribute=d[0],
                       history_has_path=any(e[0] == "path1" for e in hist))
            # second fit on the same object and fit of a clone
            c = clone(m) if not decorated else fresh(overrides)[0]
            if _params_repr(c) != _params_repr(m):
                report("clone_does_not_round_trip_hyperparameters", {"history": hist, "clone": _params_repr(c), "original": _params_repr(m)})
            with warnings.catch_warnings():
                warnings.simplefilter("ignore")
                c.fit(X1, y1)
            d = _diff_state(c, ref)
            if d:
                report("clone_fits_differently", {"history": hist, "differing_attributes": d}, attribute=d[0])
            gp = m.get_params()
            m.set_params(**gp)
            if _params_repr(m) != _params_repr(ref):
                report("set_params_of_get_params_is_not_identity", {"history": hist})
        # queries are pure: a history with predict / predict_proba / score events answers later queries like the same history without them
        PURE = ("predict1", "proba1", "score1", "pickle", "deepcopy")
        if any(e[0] in PURE for e in hist):
            mq, _ = replay(hist)
            mp, _ = replay(tuple(e for e in hist if e[0] not in PURE))

            def answers(mm):
                out = []
                for Xq, yq in ((X1, y1), (X3, y3)):
                    for call in ("predict", "predict_proba", "score"):
                        if not hasattr(mm, call):
                            continue
                        try:
                            with warnings.catch_warnings():
                                warnings.simplefilter("ignore")
                                r = getattr(mm, call)(Xq, yq) if call == "score" else getattr(mm, call)(Xq)
                            out.append(np.array(r, dtype=float, copy=True))
                        except Exception as e:  # noqa
                            out.append(type(e).__name__)
                return out
            a1, a2 = answers(mq), answers(mp)
            same = len(a1) == len(a2) and all((isinstance(x, str) and x == z) or (not isinstance(x, str) and not isinstance(z, str) and x.shape == z.shape and np.array_equal(x, z))
                                               for x, z in zip(a1, a2))
            if not same:
                report("answers_depend_on_earlier_queries", {"history": hist})
            stats["traces"] += 1
        if name in M.SPARSE and len(hist) <= 2:
            ma, ov = replay(hist)
            mb, _, _ = fresh(ov)
            with warnings.catch_warnings():
                warnings.simplefilter("ignore")
                try:
                    ra = ma.path(X1, y1, alpha_multiplier=3.0, min_features=1, max_patience=1)
                    rb = mb.path(X1, y1, alpha_multiplier=3.0, min_features=1, max_patience=1)
                    same = all(np.array_equal(np.asarray(a, dtype=float), np.asarray(b, dtype=float), equal_nan=True) for a, b in zip(ra[1:], rb[1:])) \
                        and all(np.array_equal(a, b) for a, b in zip(ra[0], rb[0]))
                    if not same or _diff_state(ma, mb) or _params_repr(ma) != _params_repr(mb):
                        report("path_depends_on_history", {"history": hist, "alphas_after_history": ra[3], "alphas_fresh": rb[3],
                                                           "differing_attributes": _diff_state(ma, mb)},
                               history_has_path=any(e[0] == "path1" for e in hist))
                except ValueError as e:
                    if "0 feature(s)" not in str(e):
                        raise
            stats["traces"] += 1
        for k in D:
            if pristine[k] is not None and (not np.array_equal(D[k], pristine[k]) or not D[k].flags.writeable):
                report("caller_array_modified", {"history": hist, "event": "final fit/path", "array": k}, event="fit")
                D[k] = pristine[k].copy()
        if len(hist) < depth:
            for ev in events:
                frontier.append(hist + (ev,))
    return {"v": v, "nt": [case] if stats["states"] > 3 else [], "out": [(name, si, stats["states"])],
            "stats": dict(stats, evals=stats["traces"]),
            "sample": {"estimator": name, "spec": SPECS[name][si], "alphabet": [list(e) for e in events], "depth": depth, "states": stats["states"]}}


def _prelude(name, seed):
    """Other objects live and work in the process first: every estimator class (other hyperparameters, other data shapes), other configurations
    of the class under test, a decorated model, printed trees, the GEMINI registry and the data generators.  Nothing here touches the objects
    whose results are compared afterwards."""
    import contextlib
    import io
    rs = np.random.RandomState(seed + 900)
    Xo = rs.normal(size=(9, 4))
    with warnings.catch_warnings(), contextlib.redirect_stdout(io.StringIO()):
        warnings.simplefilter("ignore")
        for other in M.ESTIMATORS:
            for kw in ({}, {"verbose": True}):
                try:
                    if other == "Kauri":
                        mo = M.make(other, max_clusters=4, max_depth=2, **kw)
                    else:
                        mo = M.make(other, n_clusters=2, max_iter=2, learning_rate=0.3, random_state=seed + 7, **kw)
                    mo.fit(Xo)
                    mo.predict(Xo[:5])
                    mo.score(Xo)
                    if other in M.SPARSE:
                        M.make(other, n_clusters=2, alpha=0.4, groups=[[0, 2], [1]], random_state=3).path(Xo, alpha_multiplier=3.0, min_features=1, max_patience=1)
                    if other == "Kauri":
                        from gemclus.tree import print_kauri_tree
                        print_kauri_tree(mo, ["a", "b", "c", "d"])
                    if other == "Douglas":
                        mo.find_active_points(Xo)
                except Exception:  # noqa
                    pass
        for si2 in range(len(SPECS[name])):
            try:
                m2, y2, _ = _build(name, dict(SPECS[name][si2], random_state=seed + 11), Xo[:, :2], seed + 3)
                m2.fit(Xo[:, :2], y2)
                m2.score(Xo[:, :2], y2)
            except Exception:  # noqa
                pass
        try:
            from gemclus import add_mlcl_constraint
            from gemclus.data import celeux_one, draw_gmm, gstm
            from gemclus.gemini._utils import _str_to_gemini
            add_mlcl_constraint(M.make("LinearModel", batch_size=4), [(0, 1), (2, 5)], [(1, 3)], 2.0).fit(Xo)
            for g in M.ALL_GEMINIS:
                gg = _str_to_gemini(g)
                gg(rs.dirichlet(np.ones(3), size=9), gg.compute_affinity(Xo), return_grad=True)
            draw_gmm(5, np.zeros((2, 2)), np.stack([np.eye(2)] * 2), np.array([0.5, 0.5]), 0)
            gstm(8, 2, 3, 0)
            celeux_one(6, 2, 1.5, 0)
        except Exception:  # noqa
            pass


def _iso_digests(name, si, seed, order, prelude=False):
    """Digests of fresh estimators fitted on same-shaped data sets in the given order (run in this process)."""
    if prelude:
        _prelude(name, seed)
    spec = dict(SPECS[name][si], random_state=seed)
    data = {"X1": seams.tiny_data(5, 2, seed + 70), "X3": seams.tiny_data(5, 2, seed + 72) * 2.0}
    out = {}
    with warnings.catch_warnings():
        warnings.simplefilter("ignore")
        for tag in order:
            X = data[tag]
            m, y, _ = _build(name, spec, X, seed if tag == "X1" else seed + 1)
            m.fit(X, y)
            out["fit:" + tag] = _digest_state(m) + "|" + repr(np.asarray(m.labels_).tolist())
            if hasattr(m, "predict_proba"):
                out["proba:" + tag] = hashlib.blake2b(np.ascontiguousarray(m.predict_proba(X)).tobytes(), digest_size=8).hexdigest()
            out["score:" + tag] = repr(m.score(X, y))
            if name in M.SPARSE:
                m2, y2, _ = _build(name, spec, X, seed if tag == "X1" else seed + 1)
                try:
                    r = m2.path(X, y2, alpha_multiplier=3.0, min_features=1, max_patience=1)
                    out["path:" + tag] = repr([np.asarray(h, dtype=float).tolist() for h in r[1:]]) + _digest_state(m2)
                except ValueError as e:
                    out["path:" + tag] = "raises " + str(e)[:40]
    return out


def isolation_case(case):
    """History independence across *process-global* state: the same fits done in another order in a fresh interpreter must give
    the same models (a differential inside one process cannot see state that both sides share, e.g. a module-level cache)."""
    import json
    import os
    import subprocess
    import sys
    name, si, seed = case
    here = _iso_digests(name, si, seed, ["X1", "X3", "X1"], prelude=True)
    code = ("import sys, json; sys.path.insert(0, %r); sys.path.insert(0, %r); import warnings; warnings.filterwarnings('ignore');"
            "from props import c12; print('ISO' + json.dumps(c12._iso_digests(%r, %d, %d, ['X3', 'X1'])))") % (
        os.environ.get("VERIF_REPO", "/repo"), os.path.dirname(os.path.dirname(os.path.abspath(__file__))), name, si, seed)
    r = subprocess.run([sys.executable, "-B", "-c", code], capture_output=True, text=True, timeout=600)
    line = [l for l in r.stdout.splitlines() if l.startswith("ISO")]
    if not line:
        raise RuntimeError("isolated interpreter failed: " + r.stderr[-500:])
    there = json.loads(line[0][3:])
    v = []
    for k in sorted(there):
        if here.get(k) != there[k]:
            v.append(violation("result_depends_on_process_history", {"what": k, "this_process": "other objects of all 18 classes / other configurations / decorated model / printed trees / GEMINIs / data generators used first, then X1, X3, X1", "fresh_interpreter_order": ["X3", "X1"]},
                               estimator=name, spec=str(SPECS[name][si]), what=k.split(":")[0]))
    return {"v": v[:3], "nt": [case], "stats": {"evals": 2, "states": 2, "transitions": 5, "traces": 2},
            "sample": {"estimator": name, "spec": SPECS[name][si], "compared": sorted(there)}}


def explorers(tier, seed):
    depth = 4 if tier == "thorough" else 2
    cases = [(name, si, depth, seed) for name in M.ESTIMATORS for si in range(len(SPECS[name]))]
    if seed != 1:
        cases.append(("SparseLinearModel", 1, 1, 1))      # witness of KF-C12-1, independent of VERIF_SEED
    return [Explorer("call_histories", "props.c12", "history_search", cases, kind="bfs", chunk=1, floor=20, case_timeout=3000,
                     rule="BFS over call histories (fit(X1), fit(X2), fit_predict, predict, predict_proba, score, set_params of several hyperparameters, "
                          "path on sparse models, clone) of depth <= " + str(depth) + " on each of the 18 estimators in 1-2 configurations; states deduplicated by "
                          "(class, hyperparameters, digest of all fitted attributes incl. optimiser state); in every state: history;fit(X1) == fresh fit(X1) "
                          "(all attributes bitwise), clone/second fit, path differential, caller arrays untouched, hyperparameters changed only by set_params; "
                          "non-trivial = search that reached more than 3 distinct states",
                     bound=f"history depth {depth} before the final fit/path (total {depth + 1} calls)"),
            Explorer("process_isolation", "props.c12", "isolation_case", [(name, si, seed) for name in M.ESTIMATORS for si in range(len(SPECS[name]))],
                     kind="bfs", chunk=1, floor=10, determinism_probe=1,
                     rule="fits / paths / scores of two same-shaped data sets done in the worker AFTER other objects have worked there (all 18 classes with other "
                          "hyperparameters and verbose mode, other configurations of the class, a decorated model, printed trees, every GEMINI, the data "
                          "generators) in order (X1, X3, X1), and in order (X3, X1) in a fresh interpreter, must give identical models: catches state shared "
                          "between objects through class attributes, mutable defaults and module-level globals, which a differential inside one process cannot see")]
