"""
C13 - GEMINI scores obey their invariances and bounds.
Engine E1: all prediction matrices with rows in closed-simplex lattices (one-hot rows included) for small
(n,K) x ALL sample permutations and ALL cluster permutations x symmetric affinity menu x all 13 GEMINIs.
"""
import itertools
import math

import numpy as np

from mc import affinity as aff
from mc.core import Explorer, violation
from oracles import gemini as ref
from props.c02 import TARGETS, _gemini, softmax

ASSUMPTIONS = [
    "closed-simplex lattices of denominator 2 and 4; gradient equivariance only at seed-generic interior points (kinks have set-valued gradients)",
    "MMD comparisons allow the square-root rounding slack of oracles/gemini.py",
]


def _aff(dist, tag, n, seed):
    X = aff.dataset(n, 2, seed)
    if dist == "mmd":
        kw, y, A = aff.kernel_reference(tag, X, seed)
    elif dist == "wasserstein":
        kw, y, A = aff.metric_reference(tag, X, seed)
    else:
        kw, y, A = {}, None, None
    return kw, A


def _slack(dist, mode, P, A, eps=1e-12):
    if dist != "mmd":
        return 0.0
    return 2.0 * ref.ref_score_slack(np.clip(P, eps, 1 - eps), A, dist, mode)[1]


def _permA(A, sig):
    return None if A is None else np.ascontiguousarray(A[np.ix_(sig, sig)])


def inv_block(case):
    ti, K, n, q, tag, first, seed = case
    target, dist = TARGETS[ti]
    cls, ovo = target
    mode = "ovo" if ovo else "ova"
    kw, A = _aff(dist, tag, n, seed)
    g = _gemini(target, kw)
    rows = ref.closed_rows(K, q)
    lb = ref.lower_bound(dist)
    where = dict(target=f"{cls}(ovo={ovo})", dist=dist, K=K, n=n, q=q, affinity=tag)
    v, nt, nev, outs = [], 0, 0, set()
    sigmas = list(itertools.permutations(range(n)))
    taus = list(itertools.permutations(range(K)))
    for rest in itertools.product(range(len(rows)), repeat=n - 1):
        P = np.array([rows[first]] + [rows[i] for i in rest])
        with np.errstate(all="ignore"):
            s0, G0 = g(P.copy(), A, return_grad=True)
        s0 = float(s0)
        nev += 1
        sl = _slack(dist, mode, P, A)
        tol = 1e-9 * max(1.0, abs(s0)) + sl
        if not (np.isfinite(s0) and np.isfinite(G0).all()):
            v.append(violation("nonfinite_on_closed_simplex", {"P": P, "score": s0, "grad": G0}, **where))
            continue
        if s0 < lb - tol:
            v.append(violation("below_lower_bound", {"P": P, "score": s0, "bound": lb}, **where))
        if dist in ("tv", "hellinger") and s0 > 1 + tol:
            v.append(violation("above_one", {"P": P, "score": s0}, **where))
        # the storage type of the predictions is not part of the partition: a hard partition given as an integer or boolean indicator
        # matrix (and any matrix in single precision) has the score of its float64 copy
        Pro = P.copy()
        Pro.setflags(write=False)
        variants = [("float32", P.astype(np.float32), 1e-5), ("readonly", Pro, 0.0)]
        if np.all((P == 0) | (P == 1)):
            variants += [("int64", P.astype(np.int64), 0.0), ("bool", P.astype(bool), 0.0), ("int8", P.astype(np.int8), 0.0)]
        for dname, Pv, extra in variants:
            nev += 1
            try:
                Av = A
                if dname == "readonly" and A is not None:
                    Av = np.array(A, copy=True)
                    Av.setflags(write=False)
                with np.errstate(all="ignore"):
                    sv = float(g(Pv, Av))
                    _, Gv = g(Pv if dname == "readonly" else Pv.copy(), Av, return_grad=True)
                okv = abs(sv - s0) <= tol + extra * max(1.0, abs(s0)) and np.shape(Gv) == P.shape and np.isfinite(np.asarray(Gv, dtype=float)).all()
            except Exception as e:  # noqa
                okv, sv = False, repr(e)[:150]
            if not okv:
                v.append(violation("score_depends_on_the_dtype_of_the_predictions", {"P": P, "dtype": dname, "float64_score": s0, "got": sv}, **where))
        all_equal = bool(np.all(P == P[0]))
        if all_equal and abs(s0 - lb) > tol + (1e-7 if dist == "mmd" else 0.0):
            v.append(violation("nonzero_for_sample_independent_predictions", {"P": P, "score": s0, "bound": lb}, **where))
        if not all_equal:
            nt += 1
        for sig in sigmas[1:]:
            sig = list(sig)
            s1 = float(g(P[sig].copy(), _permA(A, sig)))
            nev += 1
            if abs(s1 - s0) > tol:
                v.append(violation("sample_permutation_changes_score", {"P": P, "sigma": sig, "score": s0, "permuted": s1}, **where))
        for tau in taus[1:]:
            tau = list(tau)
            s1 = float(g(P[:, tau].copy(), A))
            nev += 1
            if abs(s1 - s0) > tol:
                v.append(violation("cluster_permutation_changes_score", {"P": P, "tau": tau, "score": s0, "permuted": s1}, **where))
        # empty cluster
        Pz = np.concatenate([P, np.zeros((n, 1))], axis=1)
        with np.errstate(all="ignore"):
            sz, Gz = g(Pz, A, return_grad=True)
        nev += 1
        if abs(float(sz) - s0) > 1e-8 * max(1.0, abs(s0)) + sl + (1e-7 if dist == "mmd" else 0.0):
            v.append(violation("empty_cluster_changes_score", {"P": P, "score": s0, "with_empty": float(sz)}, **where))
        if np.any(np.asarray(Gz)[:, -1] != 0):
            v.append(violation("empty_cluster_nonzero_gradient", {"P": P, "grad_col": np.asarray(Gz)[:, -1]}, **where))
        outs.add(round(s0, 8))
    return {"v": v[:20], "stats": {"evals": nev, "nt_distinct": nt}, "out": [(ti, K, n, tuple(sorted(outs))[:50])],
            "sample": {"target": where["target"], "K": K, "n": n, "q": q, "affinity": tag, "first_row": rows[first]}}


def mi_block(case):
    """MI of a balanced hard K-partition (n=K*m) is log K, through every way of getting the MI."""
    K, m, order_seed = case
    import gemclus.gemini as G
    from gemclus.gemini._utils import _str_to_gemini
    n = K * m
    labels = np.repeat(np.arange(K), m)
    np.random.RandomState(order_seed).shuffle(labels)
    P = np.eye(K)[labels]
    v = []
    from mc import transport
    objs = [("MI()", G.MI()), ("KLGEMINI()", G.KLGEMINI()), ("name:mi", _str_to_gemini("mi")), ("name:kl_ova", _str_to_gemini("kl_ova"))]
    # the same objectives after a pickle / deepcopy / cloudpickle round trip, and inside a cloned / pickled model
    for lab0, g0 in list(objs):
        for kind_ in transport.KINDS:
            try:
                objs.append((f"{lab0} after {kind_}", transport.roundtrip(g0, kind_)))
            except Exception as e:  # noqa
                v.append(violation("mi_of_balanced_partition_not_logK", {"K": K, "m": m, "error": repr(e)[:200]}, target=f"{lab0} after {kind_}"))
    try:
        from sklearn.base import clone
        from gemclus.linear import LinearModel
        mdl = LinearModel(n_clusters=K, gemini=G.MI())
        objs.append(("clone(LinearModel(gemini=MI())).get_gemini()", clone(mdl).get_gemini()))
        objs.append(("pickled LinearModel(gemini=MI()).get_gemini()", transport.roundtrip(mdl, "pickle").get_gemini()))
    except Exception as e:  # noqa
        v.append(violation("mi_of_balanced_partition_not_logK", {"K": K, "m": m, "error": repr(e)[:200]}, target="model with gemini=MI() after transport"))
    for label, g in objs:
        try:
            s = float(g(P.copy(), None))
        except Exception as e:  # noqa
            v.append(violation("mi_of_balanced_partition_not_logK", {"K": K, "m": m, "error": repr(e)[:200]}, target=label))
            continue
        if abs(s - math.log(K)) > 1e-9:
            v.append(violation("mi_of_balanced_partition_not_logK", {"K": K, "m": m, "score": s, "logK": math.log(K)}, target=label))
    return {"v": v, "nt": [(K, m)] if K > 1 else [], "stats": {"evals": 4}, "sample": {"K": K, "m": m, "labels": labels}}


def equivariance_case(case):
    """Gradient equivariance at seed-generic interior points, all permutations."""
    ti, K, n, tag, t, seed = case
    target, dist = TARGETS[ti]
    cls, ovo = target
    kw, A = _aff(dist, tag, n, seed)
    g = _gemini(target, kw)
    rs = np.random.RandomState(5000 + 131 * seed + 17 * t + n * 7 + K)
    P = softmax(rs.normal(size=(n, K)) * 1.5)
    where = dict(target=f"{cls}(ovo={ovo})", dist=dist, K=K, n=n, affinity=tag)
    s0, G0 = g(P.copy(), A, return_grad=True)
    v, nev = [], 0
    sc = max(np.abs(G0).max(), 1e-12)
    for sig in itertools.permutations(range(n)):
        for tau in itertools.permutations(range(K)):
            sig, tau = list(sig), list(tau)
            s1, G1 = g(P[sig][:, tau].copy(), _permA(A, sig), return_grad=True)
            nev += 1
            if abs(float(s1) - float(s0)) > 1e-9 * max(1.0, abs(float(s0))):
                v.append(violation("joint_permutation_changes_score", {"P": P, "sigma": sig, "tau": tau, "score": float(s0), "permuted": float(s1)}, **where))
            # compare in the tangent space (row-constant shifts are not observable on the simplex)
            E = G0[sig][:, tau]
            D1 = G1 - G1.mean(1, keepdims=True)
            D0 = E - E.mean(1, keepdims=True)
            if np.abs(D1 - D0).max() > 1e-7 * sc:
                v.append(violation("gradient_not_equivariant", {"P": P, "sigma": sig, "tau": tau, "expected": E, "got": G1}, **where))
                break
    # the reordered problem handed over in another memory layout (Fortran order, a strided view) is the same problem
    sig, tau = list(range(n))[::-1], list(range(K))[::-1]
    E = G0[sig][:, tau]
    Pp = P[sig][:, tau]
    big = np.zeros((2 * n, 2 * K))
    big[::2, ::2] = Pp
    for lname, Pl in (("fortran", np.asfortranarray(Pp)), ("strided_view", big[::2, ::2])):
        Al = None if A is None else np.asfortranarray(_permA(A, sig))
        s1, G1 = g(Pl, Al, return_grad=True)
        nev += 1
        if abs(float(s1) - float(s0)) > 1e-9 * max(1.0, abs(float(s0))) or \
                np.abs((np.asarray(G1) - np.asarray(G1).mean(1, keepdims=True)) - (E - E.mean(1, keepdims=True))).max() > 1e-7 * sc:
            v.append(violation("gradient_not_equivariant", {"P": P, "layout": lname, "sigma": sig, "tau": tau, "expected": E, "got": G1}, layout=lname, **where))
    # the same reordering done by the caller IN PLACE on the affinity array it had already passed (same object, permuted content)
    if A is not None and n > 1:
        sig = list(range(1, n)) + [0]
        Aw = np.array(A, dtype=float, copy=True)
        g(P.copy(), Aw, return_grad=True)
        Aw[...] = Aw[np.ix_(sig, sig)]
        s1, G1 = g(P[sig].copy(), Aw, return_grad=True)
        nev += 1
        E = G0[sig]
        if abs(float(s1) - float(s0)) > 1e-9 * max(1.0, abs(float(s0))) or \
                np.abs((G1 - G1.mean(1, keepdims=True)) - (E - E.mean(1, keepdims=True))).max() > 1e-7 * sc:
            v.append(violation("reordering_in_place_breaks_invariance", {"P": P, "sigma": sig, "score": float(s0), "permuted": float(s1), "expected_grad": E, "got_grad": G1}, **where))
    return {"v": v[:4], "nt": [case], "stats": {"evals": nev}, "sample": {"target": where["target"], "P": P, "affinity": tag}}


def large_inv_case(case):
    """The same invariances on hundreds to thousands of samples (sizes with a remainder modulo every power of two up to 2048): reversal,
    rotation by one, one fixed shuffle and a swap of the two halves of the sample order; reversal and rotation of the clusters; bounds."""
    ti, K, n, tag, seed = case
    target, dist = TARGETS[ti]
    cls, ovo = target
    mode = "ovo" if ovo else "ova"
    rs = np.random.RandomState(60_000 + 11 * seed + n + K)
    X = rs.normal(size=(n, 2))
    if dist == "mmd":
        kw, _, A = aff.kernel_reference(tag, X, seed)
    elif dist == "wasserstein":
        kw, _, A = aff.metric_reference(tag, X, seed)
    else:
        kw, A = {}, None
    g = _gemini(target, kw)
    if (ti + K) % 2 == 0:
        from mc import transport
        g = transport.roundtrip(g, transport.pick((ti, K, n)))          # the objective as a cloned / pickled model carries it
    hard = np.eye(K)[rs.choice(K, size=n, p=rs.dirichlet(np.ones(K) * 2))]
    mats = [softmax(rs.normal(size=(n, K)) * 1.5), 0.9 * hard + 0.1 / K, hard]
    perms = {"reverse": np.arange(n)[::-1], "rotate_by_one": np.roll(np.arange(n), 1), "shuffle": rs.permutation(n),
             "swap_halves": np.roll(np.arange(n), n // 2)}
    where = dict(target=f"{cls}(ovo={ovo})", dist=dist, K=K, n=n, affinity=tag)
    lb = ref.lower_bound(dist)
    v, nev = [], 0
    for P in mats:
        with np.errstate(all="ignore"):
            s0 = float(g(P.copy(), A))
        sl = _slack(dist, mode, P, A) if dist == "mmd" else 0.0
        tol = 1e-9 * max(1.0, abs(s0)) + sl
        nev += 1
        if not np.isfinite(s0):
            v.append(violation("nonfinite_on_closed_simplex", {"score": s0, "n": n, "K": K}, **where))
            continue
        if s0 < lb - tol or (dist in ("tv", "hellinger") and s0 > 1 + tol):
            v.append(violation("below_lower_bound" if s0 < lb else "above_one", {"score": s0, "bound": lb}, **where))
        for name, sig in perms.items():
            with np.errstate(all="ignore"):
                s1 = float(g(P[sig].copy(), _permA(A, sig)))
            nev += 1
            if not abs(s1 - s0) <= tol:
                v.append(violation("sample_permutation_changes_score", {"sigma": name, "score": s0, "permuted": s1, "n": n, "K": K}, **where))
        for name, tau in (("reverse", np.arange(K)[::-1]), ("rotate_by_one", np.roll(np.arange(K), 1))):
            with np.errstate(all="ignore"):
                s1 = float(g(P[:, tau].copy(), A))
            nev += 1
            if not abs(s1 - s0) <= tol:
                v.append(violation("cluster_permutation_changes_score", {"tau": name, "score": s0, "permuted": s1, "n": n, "K": K}, **where))
    Pc = np.tile(softmax(rs.normal(size=(1, K))), (n, 1))
    with np.errstate(all="ignore"):
        sc = float(g(Pc, A))
    nev += 1
    if not abs(sc - lb) <= 1e-9 + (1e-6 * np.sqrt(np.abs(A).max()) if dist == "mmd" else 0.0) + (1e-9 * np.abs(A).max() if dist == "wasserstein" else 0.0):
        v.append(violation("nonzero_for_sample_independent_predictions", {"score": sc, "bound": lb, "n": n, "K": K}, **where))
    return {"v": v[:8], "nt": [case], "stats": {"evals": nev}, "sample": {"target": where["target"], "K": K, "n": n, "affinity": tag}}


def explorers(tier, seed):
    thorough = tier == "thorough"
    shapes = [(1, 1, 2), (1, 3, 2), (2, 1, 2), (2, 2, 2), (2, 3, 2), (2, 4, 2), (2, 2, 4), (2, 3, 4), (3, 1, 2), (3, 2, 2), (3, 3, 2), (3, 2, 4), (4, 2, 2), (5, 2, 2)]
    if thorough:
        shapes += [(3, 4, 2), (3, 3, 4), (4, 3, 2), (2, 5, 2), (2, 4, 4)]
    c1 = []
    for ti, (target, dist) in enumerate(TARGETS):
        tags = {"mmd": ["linear", "pre_indef", "rbf_g"], "wasserstein": ["euclidean", "pre_sym"]}.get(dist, ["none"])
        for (K, n, q) in shapes:
            if dist == "wasserstein" and n > 4:
                continue
            for tag in tags:
                for f in range(len(ref.closed_rows(K, q))):
                    c1.append((ti, K, n, q, tag, f, seed))
    c2 = [(K, m, o) for K in range(2, 7) for m in (1, 2, 3, 5) for o in (0, 1)]
    c3 = []
    for ti, (target, dist) in enumerate(TARGETS):
        tags = {"mmd": ["linear", "pre_indef"], "wasserstein": ["euclidean", "pre_sym"]}.get(dist, ["none"])
        for (n, K) in [(2, 2), (3, 2), (3, 3), (4, 2)] + ([(4, 3), (3, 4)] if thorough else []):
            for tag in tags:
                for t in range(3 if thorough else 2):
                    c3.append((ti, K, n, tag, t, seed))
    c4 = []
    for ti, (target, dist) in enumerate(TARGETS):
        big = {"wasserstein": [(3, 301)] + ([(4, 700)] if thorough else []), "mmd": [(3, 700), (12, 601)] + ([(4, 1301)] if thorough else [])}.get(
            dist, [(3, 700), (32, 1500), (64, 701), (5, 2049)] + ([(2, 1301), (40, 3001), (3, 4099)] if thorough else []))
        tags = {"mmd": ["linear", "rbf_g"], "wasserstein": ["euclidean"]}.get(dist, ["none"])
        c4 += [(ti, K, n, tag, seed) for K, n in big for tag in tags]
    return [
        Explorer("large_sample_invariance", "props.c13", "large_inv_case", c4, chunk=1, floor=20, case_timeout=1500,
                 rule="13 class/flag targets on hundreds to thousands of samples and up to 64 clusters (sizes leave a remainder modulo every power of two "
                      "up to 2048): interior, near-hard and hard prediction matrices x {reversal, rotation by one, fixed shuffle, swapped halves} of the "
                      "samples (affinity permuted alike) x {reversal, rotation} of the clusters, bounds, zero for sample-independent predictions"),
        Explorer("invariance_and_bounds", "props.c13", "inv_block", c1, chunk=4, floor=500,
                 rule="ALL prediction matrices with rows in the closed-simplex lattice of denominator q (one-hot rows included) for the listed "
                      "(K,n,q) x ALL sample permutations x ALL cluster permutations x appended empty cluster x bounds/finiteness, for the 13 "
                      "class/flag targets and symmetric affinities; non-trivial = matrix whose rows are not all equal",
                 bound=f"(K,n,q) in {shapes}"),
        Explorer("mi_balanced_partition", "props.c13", "mi_block", c2, chunk=8, floor=10,
                 rule="balanced hard partitions K in 2..6, m in {1,2,3,5}, two sample orders, through MI(), KLGEMINI(), 'mi', 'kl_ova'"),
        Explorer("gradient_equivariance", "props.c13", "equivariance_case", c3, chunk=4, floor=50,
                 rule="seed-generic interior points x ALL (sample, cluster) permutation pairs; gradients compared in the simplex tangent space"),
    ]
