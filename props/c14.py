"""
C14 - must-link / cannot-link constraints: exact validation, right samples, right sign.
(1) validation: ALL subsets of the 6 pairs over 4 sample indices as must-link x ALL subsets as cannot-link (4096 per
    index set), three index sets (contiguous, non-contiguous, unordered), both container types, mixed pair
    orientations; self pairs; malformed inputs.  Oracle: union-find (oracles/mlcl.py).
(2) training (engine E3): decorated models, ALL 5! answers of RandomState.permutation for the first epoch, every batch of
    every epoch: the gradient entering back-propagation equals the real GEMINI gradient plus the reference
    constraint term on exactly the rows holding the constrained samples.
"""
import itertools

import numpy as np

from mc import models as M
from mc import seams
from mc.core import Explorer, violation
from oracles import mlcl as ref

LEVEL = "model_checking"
ASSUMPTIONS = [
    "validation: 4 sample indices per index set (all 2^6 x 2^6 pair sets); training: n=5, all 120 first-epoch permutations",
    "values whose acceptance the documentation does not settle (3-column arrays, float indices) are not in the menu",
]
INDEX_SETS = [[0, 1, 2, 3], [3, 7, 11, 20], [9, 2, 40, 5]]


def _pairs(idx):
    return list(itertools.combinations(idx, 2))


def _orient(pairs, parity):
    out = []
    for t, (i, j) in enumerate(pairs):
        out.append((j, i) if (t + parity) % 2 else (i, j))
    return out


def validation_block(case):
    set_id, ml_mask, container = case
    from gemclus import add_mlcl_constraint
    from gemclus.linear import LinearModel
    idx = INDEX_SETS[set_id]
    allp = _pairs(idx)
    ml = [p for b, p in enumerate(allp) if ml_mask >> b & 1]
    v, nt, outs = [], 0, set()
    for cl_mask in range(64):
        cl = [p for b, p in enumerate(allp) if cl_mask >> b & 1]
        ml_o, cl_o = _orient(ml, ml_mask), _orient(cl, cl_mask + 1)
        expected = ref.consistent(ml_o, cl_o)
        if container == "array":
            a_ml = np.array(ml_o, dtype=int).reshape(-1, 2) if ml_o else None
            a_cl = np.array(cl_o, dtype=int).reshape(-1, 2) if cl_o else None
        else:
            a_ml, a_cl = (ml_o or None), (cl_o or None)
        model = LinearModel()
        try:
            out = add_mlcl_constraint(model, a_ml, a_cl, 1.0)
            accepted = True
        except ValueError:
            accepted, out = False, None
        if accepted != expected:
            v.append(violation("accepts_contradiction" if accepted else "rejects_consistent_constraints",
                               {"must_link": ml_o, "cannot_link": cl_o, "accepted": accepted, "expected": expected},
                               index_set=set_id, container=container))
        elif accepted and (out is not model or not hasattr(model._batchify, "indices")):
            v.append(violation("accepted_but_not_decorated", {"must_link": ml_o, "cannot_link": cl_o}, index_set=set_id))
        if ml and cl:
            nt += 1
        outs.add(accepted)
    return {"v": v[:10], "stats": {"evals": 64, "nt_distinct": nt, "states": 64, "transitions": 64, "traces": 64},
            "out": [(set_id, ml_mask, tuple(sorted(outs)))],
            "sample": {"index_set": idx, "must_link": _orient(ml, ml_mask), "container": container, "cannot_link_masks": "0..63"}}


MALFORMED = [("scalar", 5), ("flat_list", [1, 2]), ("flat_tuple", (1, 2)), ("single_column", np.array([[1], [2]])),
             ("flat_array", np.array([1, 2])), ("string", "ab"), ("nested_ragged", [[1, 2], [3]])]


def malformed_case(case):
    kind, slot, tag = case
    from gemclus import add_mlcl_constraint
    from gemclus.linear import LinearModel
    v = []
    if kind == "malformed":
        val = dict(MALFORMED)[tag]
        kw = {slot: val}
        other = "cannot_link" if slot == "must_link" else "must_link"
        for extra in (None, [(7, 8)]):
            kk = dict(kw)
            kk[other] = extra
            try:
                add_mlcl_constraint(LinearModel(), **kk)
                v.append(violation("malformed_constraint_accepted", {"slot": slot, "value": repr(val), "other": extra}, slot=slot, value=tag))
            except Exception:
                pass
    elif kind == "self":
        i = tag
        for base in ([], [(1, 2)], [(i, i + 1)]):
            kk = {slot: base + [(i, i)]}
            try:
                add_mlcl_constraint(LinearModel(), **kk)
                v.append(violation("self_pair_accepted", {"slot": slot, "pairs": kk[slot]}, slot=slot))
            except ValueError:
                pass
    elif kind == "none":
        for a, b in ((None, None), ([], []), (None, []), ([(0, 1)], None), (None, [(0, 1)]), ([(0, 1)], [])):
            m = LinearModel()
            try:
                out = add_mlcl_constraint(m, a, b)
                if out is not m:
                    v.append(violation("returned_other_object", {"ml": a, "cl": b}))
            except Exception as e:
                v.append(violation("rejects_absent_constraints", {"ml": a, "cl": b, "error": repr(e)}))
    return {"v": v, "nt": [case], "stats": {"evals": 1, "states": 1, "transitions": 1, "traces": 1}, "sample": {"case": list(map(repr, case))}}


TRAIN_MODELS = ["LinearModel", "MLPModel", "SparseLinearModel", "CategoricalModel", "Douglas"]
CONSTRAINT_SETS = {
    "A": ([(0, 3), (4, 3)], [(1, 2), (2, 0)]),               # must-link hub on the same side, cannot-link hub on both sides
    "B": ([(0, 1)], [(2, 3), (2, 4), (0, 2)]),               # cannot-link hub on the same side, a sample in both lists
    "C": ([(1, 0), (2, 1), (2, 0)], [(4, 3)]),               # a must-link triangle (every sample twice)
}


def training_case(case):
    family, factor, bs, perm, gemini, seed = case[:6]
    ML5, CL5 = CONSTRAINT_SETS[case[6] if len(case) > 6 else "A"]
    from gemclus import add_mlcl_constraint
    n = 5
    X = seams.tiny_data(n, 2, seed + 5)
    kw = dict(n_clusters=3, max_iter=2, gemini=gemini, random_state=2, learning_rate=0.2)
    if family != "CategoricalModel":
        kw["batch_size"] = bs
    if family == "SparseLinearModel":
        kw["alpha"] = 0.05
    model = M.make(family, **kw)
    seen = []
    inner = model._compute_grads            # bound method of the real class

    def grads_spy(Xb, y_pred, gradient):
        seen.append((np.array(y_pred, copy=True), np.array(gradient, copy=True)))
        return inner(Xb, y_pred, gradient)
    model._compute_grads = grads_spy        # the decoration wraps this: we see the gradient entering back-propagation
    model = add_mlcl_constraint(model, ML5, CL5, factor)
    spy = seams.BatchSpy(model)
    rs = seams.ScriptedRandomState(11, perm_script=[list(perm)] if perm is not None else None)
    with seams.scripted_rng(rs):
        model.fit(X)
    gem = model.get_gemini()
    batches = [b for ep in spy.log for b in ep]
    where = dict(family=family, factor=factor, batch_size=bs, gemini=gemini)
    v, touched, states = [], 0, set()
    if len(batches) != len(seen):
        return {"v": [violation("harness_count_mismatch", f"{len(batches)} batches vs {len(seen)} backward passes", **where)]}
    for b, (P, g_in) in zip(batches, seen):
        _, g0 = gem(P.copy(), b["A"], return_grad=True)
        T = ref.constraint_term(P, b["idx"], ML5, CL5, factor)
        exp = np.asarray(g0, dtype=float) + T
        if not np.allclose(g_in, exp, rtol=1e-10, atol=1e-12):
            rows = np.where(~np.isclose(g_in, exp, rtol=1e-10, atol=1e-12).all(1))[0]
            v.append(violation("constraint_gradient_wrong", {"batch_samples": b["idx"], "wrong_rows_hold_samples": [b["idx"][r] for r in rows],
                                                             "got_minus_gemini": g_in - g0, "expected_term": T}, **where))
        if np.abs(T).max() > 0:
            touched += 1
        states.add(tuple(b["idx"]))
    seenk, vs = set(), []
    for x in v:
        if x["kind"] not in seenk:
            seenk.add(x["kind"])
            vs.append(x)
    return {"v": vs, "nt": [case] if touched else [], "out": [tuple(sorted(states))[:6]],
            "stats": {"evals": len(batches), "traces": 1, "transitions": len(batches), "states": len(states),
                      "batches_with_active_constraint": touched},
            "sample": {"config": where, "permutation": perm, "batches": [b["idx"] for b in batches]}}


def history_case(case):
    """The constraint term is there in EVERY training run of a decorated object: second and third fit of the same object, fit after a
    predict / score, and the training loop of path() (initial fit and every path step).  Observed with a class-level spy on _compute_grads
    (what enters back-propagation), so that nothing depends on attributes stored on the instance."""
    family, factor, bs, gemini, history, seed = case
    from gemclus import add_mlcl_constraint
    ML5, CL5 = CONSTRAINT_SETS["A"]
    n = 5
    X = seams.tiny_data(n, 2, seed + 5)
    kw = dict(n_clusters=3, max_iter=2, gemini=gemini, random_state=2, learning_rate=0.2)
    if family != "CategoricalModel":
        kw["batch_size"] = bs
    if family in M.SPARSE:
        kw["alpha"] = 0.05
    twice = "twice" in history                       # constraints added in two calls (other factor for the cannot-link pairs)
    late_bs = None
    if "setbs" in history and family != "CategoricalModel":
        late_bs, kw["batch_size"] = (bs or 2), None    # decorated with the default batch size, mini-batches requested afterwards by set_params
    if "verbose" in history:
        kw["verbose"] = True
    model = M.make(family, **kw)
    klass = type(model)
    real = klass._compute_grads
    seen = []

    def cls_spy(self, Xb, y_pred, gradient):
        seen.append((seams.match_rows(Xb, X) if np.shape(Xb)[1:] == X.shape[1:] else list(range(n)), np.array(y_pred, copy=True), np.array(gradient, copy=True), len(marks)))
        return real(self, Xb, y_pred, gradient)
    marks = []
    klass._compute_grads = cls_spy
    where = dict(family=family, factor=factor, batch_size=bs, gemini=gemini, history="+".join(history))
    import contextlib
    import io
    try:
        if "default_factor" in history:
            # the weight left at its documented default: the term carries the documented factor
            from mc.defaults import documented_defaults
            factor = float(documented_defaults(add_mlcl_constraint).get("factor", 1.0))
            model = add_mlcl_constraint(model, ML5, CL5)
        elif twice:
            model = add_mlcl_constraint(model, ML5, None, factor)
            model = add_mlcl_constraint(model, None, CL5, 0.5 * factor)
        else:
            model = add_mlcl_constraint(model, ML5, CL5, factor)
        for ev in history:
            marks.append(ev)
            if ev in ("twice", "verbose", "default_factor"):
                continue
            if ev == "worker":
                # the decorated, not yet fitted model is sent to a joblib worker (cloudpickle) and trained there
                from mc import transport
                try:
                    model = transport.roundtrip(model, "cloudpickle")
                except Exception:  # noqa
                    # a decorated model that cannot be serialised cannot be trained elsewhere: nothing to judge (on the unchanged tree the
                    # decorations are closures named after the methods they wrap, which pickle refuses)
                    klass._compute_grads = real
                    return {"v": [], "nt": [], "stats": {"evals": 0, "transport_unavailable": 1}, "sample": {"config": where}}
                continue
            if ev == "setbs":
                if late_bs is not None:
                    model.set_params(batch_size=late_bs)
                continue
            if ev == "fit":
                with contextlib.redirect_stdout(io.StringIO()):
                    model.fit(X)
            elif ev == "query":
                model.predict(X)
                model.score(X)
            elif ev == "path":
                model.path(X, alpha_multiplier=3.0, min_features=1, max_patience=1)
    finally:
        klass._compute_grads = real
    gem = model.get_gemini()
    Afull = gem.compute_affinity(X)
    v, touched = [], 0
    for idx, P, g_in, stage in seen:
        A = None if Afull is None else np.asarray(Afull)[np.ix_(idx, idx)]
        _, g0 = gem(P.copy(), A, return_grad=True)
        T = ref.constraint_term(P, idx, ML5, CL5, factor) if not twice else \
            ref.constraint_term(P, idx, ML5, [], factor) + ref.constraint_term(P, idx, [], CL5, 0.5 * factor)
        touched += bool(np.abs(T).max() > 0)
        if not np.allclose(g_in, np.asarray(g0, dtype=float) + T, rtol=1e-10, atol=1e-12):
            v.append(violation("constraint_gradient_wrong", {"during": f"call {stage} of the history ({history[stage - 1]})", "batch_samples": idx,
                                                             "got_minus_gemini": g_in - g0, "expected_term": T}, stage=history[stage - 1], **where))
            break
    return {"v": v, "nt": [case] if touched else [], "stats": {"evals": len(seen), "traces": 1, "transitions": len(seen), "states": len(seen),
                                                               "batches_with_active_constraint": touched},
            "sample": {"config": where}}


def explorers(tier, seed):
    thorough = tier == "thorough"
    c1 = [(s, m, c) for s in range(3) for m in range(64) for c in ("list", "array")]
    c2 = [("malformed", slot, tag) for slot in ("must_link", "cannot_link") for tag, _ in MALFORMED] + \
         [("self", slot, i) for slot in ("must_link", "cannot_link") for i in (0, 3, 17)] + [("none", "-", 0)]
    c3 = []
    perms = list(itertools.permutations(range(5)))
    for family in TRAIN_MODELS:
        for factor in (0.5, 3.0):
            for bs in ([None] if family == "CategoricalModel" else [2, 3, None]):
                gems = ["mmd_ova", "mi", "wasserstein_ovo"] if thorough else ["mmd_ova" if factor < 1 else "mi"]
                for gemini in gems:
                    c3.append((family, factor, bs, None, gemini, seed))
                    for p in (perms if (thorough or family in ("LinearModel", "MLPModel")) else perms[::4]):
                        c3.append((family, factor, bs, p, gemini, seed))
                    for cs in ("B", "C"):
                        c3.append((family, factor, bs, None, gemini, seed, cs))
                        for p in (perms if thorough else perms[::6]):
                            c3.append((family, factor, bs, p, gemini, seed, cs))
    c4 = []
    for family in TRAIN_MODELS + ["SparseMLPModel"]:
        for gemini in ("mmd_ova", "mi"):
            for bs in ([None] if family == "CategoricalModel" else [2, None]):
                hists = [("fit", "fit"), ("fit", "query", "fit"), ("fit", "fit", "fit"), ("twice", "fit"), ("twice", "fit", "fit"), ("verbose", "fit"), ("verbose", "twice", "fit"), ("setbs", "fit"), ("fit", "setbs", "fit"), ("worker", "fit"), ("twice", "worker", "fit"), ("fit", "worker", "fit"), ("default_factor", "fit")] + ([("path",), ("fit", "path"), ("path", "fit")] if family in M.SPARSE else [])
                for h in hists:
                    c4.append((family, 3.0, bs, gemini, h, seed))
    return [
        Explorer("training_histories", "props.c14", "history_case", c4, kind="choices", chunk=4, floor=30,
                 rule="decorated models trained repeatedly: fit;fit, fit;predict+score;fit, fit;fit;fit, constraints added in two calls with two factors, verbose mode, and (sparse) path, fit;path, path;fit - the gradient entering "
                      "back-propagation in EVERY call of EVERY training run is the GEMINI gradient plus the constraint term (class-level spy)"),
        Explorer("validation_all_pair_sets", "props.c14", "validation_block", c1, chunk=8, floor=1000,
                 rule="ALL subsets of the 6 pairs over 4 indices as must-link x ALL subsets as cannot-link, index sets "
                      f"{INDEX_SETS}, list-of-tuples and ndarray, mixed orientations; non-trivial = both sets non-empty; "
                      "oracle = union-find consistency", bound="4 indices, 2^6 x 2^6 pair sets x 3 index sets x 2 containers"),
        Explorer("validation_malformed", "props.c14", "malformed_case", c2, chunk=4, floor=10,
                 rule="malformed menu {scalar, flat list/tuple/array, single column, string, ragged} in either slot, self pairs (i,i) alone and among valid pairs, absent constraints"),
        Explorer("training_constraint_gradient", "props.c14", "training_case", c3, kind="choices", chunk=8, floor=100,
                 require={"batches_with_active_constraint": 100},
                 rule="decorated {Linear, MLP, SparseLinear, Categorical, Douglas} x factor {0.5,3} x batch_size {2,3,None} x first-epoch permutation "
                      "answers (ALL 120 for Linear/MLP, every 4th for the others in quick; ALL in thorough) x every batch of 2 epochs; "
                      "non-trivial = fit in which at least one batch holds both members of a constrained pair",
                 bound="n=5, deviation bound 1 (first epoch scripted)", exhaustive=thorough),
    ]
