"""
C15 - Douglas: masked features inert, valid soft bins, active points as defined.
Engine E1: all non-empty feature masks for d<=3 (+None) x n_cuts x temperatures x ALL orders of the cut-point vectors x
cell lattice; find_active_points over ALL cut vectors from a menu against features of known range.
"""
import itertools

import numpy as np

from mc.core import Explorer, violation

ASSUMPTIONS = [
    "cut points are set in place on the fitted attribute cut_points_list_ to enumerate all orders; cells narrower than 1.0 are not probed for the "
    "zero-temperature limit (temperature menu stops at 0.02)",
]
CUT_MENU = [-10.0, -1.0, 0.0, 0.25, 0.5, 1.0, 2.0, 10.0]
SORTED_CUTS = {1: [0.4], 2: [-1.1, 1.3], 3: [-1.6, 0.2, 1.9]}


def _fit(d, mask, n_cuts, temperature, seed, gemini="mmd_ova", batch_size=None, n=7):
    from gemclus.tree import Douglas
    rs = np.random.RandomState(95_000 + seed + d)
    X = rs.normal(size=(n, d))
    kw = dict(n_clusters=3, gemini=gemini, n_cuts=n_cuts, temperature=temperature, max_iter=2, random_state=seed, learning_rate=0.05, batch_size=batch_size)
    if mask is not None:
        kw["feature_mask"] = np.array(mask, dtype=bool)
    if batch_size is not None:            # estimator-protocol route on these cases: hyperparameters arrive through set_params
        return Douglas().set_params(**kw).fit(X), X
    return Douglas(**kw).fit(X), X


def douglas_case(case):
    d, mask, n_cuts, temperature, seed = case[:5]
    batch_size = case[5] if len(case) > 5 else None
    model, X = _fit(d, mask, n_cuts, temperature, seed, batch_size=batch_size)
    if temperature == 1.0:
        # event: a refit of the same object is refused (a mask of the wrong length, non-finite data); the configuration is then put back:
        # the model it still exposes must be the one it was (masked features inert, leaves and cut points on the used features, ...)
        keep = model.get_params(deep=False)
        Xbad = X.copy()
        Xbad[0, 0] = np.inf
        for attempt_ in ((lambda: model.set_params(feature_mask=np.array([True] * (d + 1))).fit(X)),
                         (lambda: model.set_params(feature_mask=np.array(([False, True] * d)[:d], dtype=bool) if d > 1 else None).fit(Xbad))):
            try:
                attempt_()
            except Exception:  # noqa
                pass
        model.set_params(**keep)
    used = list(range(d)) if mask is None else [i for i in range(d) if mask[i]]
    where = dict(d=d, mask=None if mask is None else list(map(int, mask)), n_cuts=n_cuts, temperature=temperature, batch_size=batch_size)
    v = []
    if temperature in (10.0, 0.02):
        # the fitted model as a worker / a stored file / a pipeline copy hands it back (pickle, deepcopy, cloudpickle): every check below runs on the copy
        from mc import transport
        kind_ = transport.pick((d, repr(mask), n_cuts, temperature))
        before_ = model.predict_proba(X)
        try:
            model = transport.roundtrip(model, kind_)
            if not np.allclose(model.predict_proba(X), before_, rtol=1e-12, atol=1e-14):
                v.append(violation("masked_feature_changes_predictions", {"what": f"the {kind_} copy of the fitted model predicts differently from the original"}, **where))
        except Exception as e:  # noqa
            v.append(violation("masked_feature_changes_predictions", {"what": f"{kind_} copy failed", "error": repr(e)[:200]}, **where))
    # leaves
    if model.leaf_scores_.shape != ((n_cuts + 1) ** len(used), 3):
        v.append(violation("wrong_number_of_leaves", {"shape": model.leaf_scores_.shape, "expected": (n_cuts + 1) ** len(used)}, **where))
    if [f for f, _ in model.cut_points_list_] != used or any(len(c) != n_cuts for _, c in model.cut_points_list_):
        v.append(violation("cut_points_not_on_the_used_features", {"features": [f for f, _ in model.cut_points_list_], "used": used}, **where))
    # masked features inert
    base = model.predict_proba(X)
    for f in range(d):
        if f in used:
            continue
        for delta in (1.0, -7.5, 1e6):
            X2 = X.copy()
            X2[:, f] += delta
            if not np.array_equal(model.predict_proba(X2), base):
                v.append(violation("masked_feature_changes_predictions", {"feature": f, "delta": delta}, **where))
                break
    # integer-valued points: the dtype of the array they come in does not change their cell nor their prediction
    Qi = np.array(list(itertools.product(*[[-3, -1, 0, 1, 2, 4] if f in used else [1] for f in range(d)])), dtype=np.int64)[:200]
    pf = model.predict_proba(Qi.astype(float))
    for dt in (np.int64, np.int32):
        if not np.allclose(model.predict_proba(Qi.astype(dt)), pf, rtol=1e-12, atol=1e-14):
            v.append(violation("prediction_depends_on_the_dtype_of_the_query", {"dtype": str(np.dtype(dt))}, **where))
            break
    n_orders, cells_probed = 0, 0
    reference_cells = None
    for orders in itertools.product(*[list(itertools.permutations(range(n_cuts))) for _ in used]):
        n_orders += 1
        for (f, cuts), order in zip(model.cut_points_list_, orders):
            cuts[:] = np.array(SORTED_CUTS[n_cuts])[list(order)]
        # memberships are probability vectors at this temperature (points far and near the cuts, and badly scaled)
        grid1 = [-30.0, -1.6, -1.35, 0.2, 0.3, 1.6, 1.9, 2.5, 30.0]
        Q = np.array(list(itertools.product(*[grid1 if f in used else [0.7] for f in range(d)])), dtype=float)
        if len(Q) > 300:
            Q = Q[::len(Q) // 300 + 1]
        P = model._infer(Q)
        if not (np.all(np.isfinite(P)) and np.all(P >= 0) and np.allclose(P.sum(1), 1, atol=1e-12)):
            v.append(violation("predictions_not_probability_vectors", {"orders": orders}, **where))
        # the public call on the whole query set (any number of rows, whatever the training batch size) gives every sample its own memberships
        Ppub = np.asarray(model.predict_proba(Q))
        if Ppub.shape != P.shape or not (np.all(np.isfinite(Ppub)) and np.all(Ppub >= 0) and np.allclose(Ppub.sum(1), 1, atol=1e-12)) \
                or not np.allclose(Ppub, P, rtol=1e-12, atol=1e-14) or not np.array_equal(model.predict(Q), P.argmax(1)):
            bad_rows = np.where(~np.isclose(Ppub, P, rtol=1e-12, atol=1e-14).all(1))[0] if Ppub.shape == P.shape else []
            v.append(violation("predict_proba_of_a_query_set_is_not_the_per_sample_membership", {"rows": len(Q), "wrong_rows": bad_rows[:10], "orders": orders}, **where))
        leaf = getattr(model, "_leaf", None)
        if leaf is not None:
            if not (np.all(np.isfinite(leaf)) and np.all(leaf >= 0) and np.allclose(leaf.sum(1), 1, atol=1e-12) and leaf.shape[1] == (n_cuts + 1) ** len(used)):
                v.append(violation("leaf_memberships_not_a_probability_vector", {"orders": orders, "row_sums": leaf.sum(1)[:5]}, **where))
            for b in getattr(model, "_all_binnings", []):
                if not (np.all(b >= 0) and np.allclose(b.sum(1), 1, atol=1e-12)):
                    v.append(violation("feature_bin_memberships_not_a_probability_vector", {"orders": orders}, **where))
        # zero-temperature limit: constant inside each cell, the cell along a feature = number of cut points below the value
        old_t = model.temperature
        model.temperature = 0.02
        sc = SORTED_CUTS[n_cuts]
        centres = [sc[0] - 1.5] + [(a + b) / 2 for a, b in zip(sc[:-1], sc[1:])] + [sc[-1] + 1.5]
        alt = [sc[0] - 0.6] + [a + 0.55 for a in sc[:-1]] + [sc[-1] + 0.6]
        seen_cells = {}
        for cell in itertools.product(range(n_cuts + 1), repeat=len(used)):
            pts = []
            for variant in (centres, alt):
                x = np.full(d, 0.7)
                for f, c in zip(used, cell):
                    x[f] = variant[c]
                pts.append(x)
            # reference cell index from the property's wording
            for x in pts:
                ref_cell = tuple(int(sum(1 for cp in model.cut_points_list_[i][1] if cp < x[f])) for i, f in enumerate(used))
                if ref_cell != cell:
                    raise AssertionError("harness: probe point not in the intended cell")
            pr = model.predict_proba(np.array(pts))
            cells_probed += 1
            if np.abs(pr[0] - pr[1]).max() > 1e-6:
                v.append(violation("prediction_not_constant_inside_a_cell_at_low_temperature", {"cell": cell, "points": pts, "predictions": pr, "orders": orders}, **where))
            seen_cells[cell] = pr[0]
        # distinct cells are distinct leaves: with generic leaf scores their predictions differ (a merged pair of cells means that some
        # leaf is unreachable, i.e. the cell of a value is not given by the number of cut points below it)
        keys = sorted(seen_cells)
        for a_i in range(len(keys)):
            for b_i in range(a_i + 1, len(keys)):
                if np.abs(seen_cells[keys[a_i]] - seen_cells[keys[b_i]]).max() < 1e-9:
                    v.append(violation("two_cells_share_one_prediction_at_low_temperature", {"cells": [keys[a_i], keys[b_i]], "orders": orders,
                                                                                          "prediction": seen_cells[keys[a_i]]}, **where))
                    break
        # the cut points are a set: the order in which they are stored must not change the prediction of a cell
        if reference_cells is None:
            reference_cells = dict(seen_cells)
        else:
            for c_ in keys:
                if np.abs(seen_cells[c_] - reference_cells[c_]).max() > 1e-6:
                    v.append(violation("cell_prediction_depends_on_storage_order_of_cut_points", {"cell": c_, "orders": orders,
                                                                                                "sorted_layout": reference_cells[c_], "this_layout": seen_cells[c_]}, **where))
                    break
        model.temperature = old_t
    return {"v": _dedup(v), "nt": [case] if len(used) < d or n_cuts > 1 else [], "out": [(d, len(used), n_cuts)],
            "stats": {"evals": 1, "cut_orders": n_orders, "cells_probed": cells_probed},
            "sample": {"config": where, "cut_orders": n_orders, "cells_probed": cells_probed}}


def wide_mask_case(case):
    """Wider data (5..8 features): ALL masks with at most 4 used features - unevenly spaced, non-contiguous, any position.  Masked columns are
    inert, every used column matters (a move across all cut points changes the memberships), leaves and cut points sit on the used features."""
    d, mask, n_cuts, seed = case[:4]
    n_rows = case[4] if len(case) > 4 else 7
    model, X = _fit(d, mask, n_cuts, 0.1, seed, n=n_rows)
    used = [i for i in range(d) if (mask is None or mask[i])]          # the documented default (None): every feature is used
    where = dict(d=d, mask=None if mask is None else list(map(int, mask)), n_cuts=n_cuts, temperature=0.1, batch_size=None, n=n_rows)
    v = []
    if [f for f, _ in model.cut_points_list_] != used or model.leaf_scores_.shape[0] != (n_cuts + 1) ** len(used):
        v.append(violation("cut_points_not_on_the_used_features", {"features": [f for f, _ in model.cut_points_list_], "used": used}, **where))
    base = model.predict_proba(X)
    for f in range(d):
        if f in used:
            continue
        for delta in (3.0, -1e4):
            X2 = X.copy()
            X2[:, f] += delta
            if not np.array_equal(model.predict_proba(X2), base):
                v.append(violation("masked_feature_changes_predictions", {"feature": f, "delta": delta}, **where))
                break
    # independent forward pass from the public attributes: soft bins of the USED columns only
    try:
        ref_P = _reference_forward(model, X, used, n_cuts)
        if not np.allclose(base, ref_P, rtol=1e-9, atol=1e-12):
            v.append(violation("memberships_not_those_of_the_used_features", {"max_abs_diff": float(np.abs(base - ref_P).max())}, **where))
    except NotImplementedError:
        pass
    if not np.array_equal(model.predict(X), model.labels_):
        v.append(violation("masked_feature_changes_predictions", {"what": "predict(X_train) differs from labels_"}, **where))
    return {"v": _dedup(v), "nt": [case], "out": [(d, len(used))], "stats": {"evals": 1}, "sample": {"config": where}}


def _reference_forward(model, X, used, n_cuts):
    """softmax over leaves of sum_f (number of sorted cut points below the bin) * x_f / T - cumulative cut offsets: the documented soft binning
    (one soft bin vector per used feature, outer product over features, softmax of the membership-weighted leaf scores)."""
    T = model.temperature
    bins = []
    for (f, cuts) in model.cut_points_list_:
        c = np.sort(np.asarray(cuts, dtype=float))
        w = np.arange(n_cuts + 1, dtype=float)
        b = np.concatenate([[0.0], -np.cumsum(c)])
        logits = (X[:, [f]] * w[None, :] + b[None, :]) / T
        logits -= logits.max(1, keepdims=True)
        e = np.exp(logits)
        bins.append(e / e.sum(1, keepdims=True))
    leaf = bins[0]
    for b in bins[1:]:
        leaf = (leaf[:, :, None] * b[:, None, :]).reshape(len(X), -1)
    out = leaf @ np.asarray(model.leaf_scores_, dtype=float)          # leaf memberships mix the leaf scores, then one softmax
    out = out - out.max(1, keepdims=True)
    return np.exp(out) / np.exp(out).sum(1, keepdims=True)


def _dedup(v):
    seen, vs = set(), []
    for x in v:
        if x["kind"] not in seen:
            seen.add(x["kind"])
            vs.append(x)
    return vs


def active_case(case):
    d, mask, n_cuts, first_cut, seed = case
    model, X = _fit(d, mask, n_cuts, 0.1, seed)
    used = list(range(d)) if mask is None else [i for i in range(d) if mask[i]]
    where = dict(d=d, mask=None if mask is None else list(map(int, mask)), n_cuts=n_cuts)
    v, n_eval, nt = [], 0, 0
    # data: feature f ranges over [0,1] (three values), except a degenerate single-value feature variant
    datas = {"range01": np.array([[0.0] * d, [0.5] * d, [1.0] * d]), "single_row": np.array([[0.5] * d]),
             "constant": np.array([[0.5] * d, [0.5] * d]), "shifted": np.array([[-3.0] * d, [-2.0] * d])}
    for rest in itertools.product(CUT_MENU, repeat=n_cuts - 1):
        cuts0 = [first_cut] + list(rest)
        for (f, cuts), shift in zip(model.cut_points_list_, range(len(used))):
            cuts[:] = np.roll(np.array(cuts0), shift)          # same multiset on every used feature, different storage order
        for dname, data in datas.items():
            n_eval += 1
            got = sorted(int(i) for i in model.find_active_points(data))
            exp = sorted(f for (f, cuts) in model.cut_points_list_
                         if any(data[:, f].min() < c < data[:, f].max() for c in cuts))
            if got != exp:
                v.append(violation("active_points_wrong", {"cuts": cuts0, "data": dname, "feature_min_max": [float(data[:, 0].min()), float(data[:, 0].max())],
                                                           "returned": got, "expected": exp}, data=dname, **where))
            if exp:
                nt += 1
    return {"v": _dedup(v), "stats": {"evals": n_eval, "nt_distinct": 1 if nt else 0}, "nt": [case] if nt else [],
            "sample": {"config": where, "first_cut": first_cut, "cut_menu": CUT_MENU}}


def explorers(tier, seed):
    thorough = tier == "thorough"
    c1, c2 = [], []
    for d in (1, 2, 3):
        masks = [None] + [m for m in itertools.product([True, False], repeat=d) if any(m)]
        for mask in masks:
            n_used = d if mask is None else sum(mask)
            for n_cuts in (1, 2, 3):
                if (n_cuts + 1) ** n_used > 64 or (not thorough and n_cuts == 3 and n_used == 3):
                    continue
                for temperature in (10.0, 1.0, 0.1, 0.02):
                    c1.append((d, mask, n_cuts, temperature, seed))
                for bsz in (2, 4):
                    c1.append((d, mask, n_cuts, 0.1, seed, bsz))
                if n_used <= 2:
                    for fc in CUT_MENU:
                        c2.append((d, mask, n_cuts, fc, seed))
    c3 = []
    for d in (5, 6, 7, 8):
        for k in (1, 2, 3, 4):
            for used in itertools.combinations(range(d), k):
                if (n_c := 1) and (thorough or d <= 7 or k <= 3):
                    c3.append((d, tuple(i in used for i in range(d)), 1 if k > 2 else 2, seed))
    c3 += [(d, None, 1, seed, n_) for d in (2, 3, 4, 5, 6) for n_ in sorted({3, 4, max(3, d), d + 1, 9})]       # default mask, also with fewer samples than features
    return [
        Explorer("wide_masks", "props.c15", "wide_mask_case", c3, chunk=8, floor=100,
                 rule="d in 5..8 x ALL feature masks with <=4 used features (any spacing): cut points and leaves on the used features, masked columns inert under "
                      "perturbation, memberships equal an independent forward pass over the used columns, predict(train) == labels_"),
        Explorer("mask_bins_cells", "props.c15", "douglas_case", c1, chunk=2, floor=30, case_timeout=900,
                 rule="d<=3 x ALL non-empty feature masks (+None) x n_cuts {1,2,3} x temperature {10,1,0.1,0.02} x ALL storage orders of the cut-point "
                      "vectors: masked columns perturbed by {1,-7.5,1e6}, (n_cuts+1)^used leaves, memberships are probability vectors, at temperature "
                      "0.02 two probe points per grid cell (cell = number of cuts below the value) give the same prediction; non-trivial = masked or multi-cut configuration"),
        Explorer("active_points", "props.c15", "active_case", c2, chunk=2, floor=20,
                 rule=f"find_active_points for ALL cut vectors in {CUT_MENU}^n_cuts (different storage order per feature) against data whose features range "
                      "over [0,1], a single row, a constant feature and a shifted range; oracle: some cut strictly inside (min,max)"),
    ]
