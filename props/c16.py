"""
C16 - invalid hyperparameters and malformed inputs are rejected, never trained on.
Engine E1, one deviation: a hand-written domain table (from the docstrings) for every hyperparameter of the 18 estimators,
the GEMINI constructors, add_mlcl_constraint, print_kauri_tree and the data functions; per parameter a probe menu of in-domain
values (must be accepted: the call completes) and out-of-domain values (must raise a ValueError/TypeError-family error before
any optimiser step and leave no fitted model).  Group lists: ALL lists of up to 3 non-empty groups over {-1,0,1,2,3} for d=3.
Malformed data menu and calls before fit.
"""
import contextlib
import io
import itertools
import warnings

import numpy as np

from mc import models as M
from mc import seams
from mc.core import Explorer, violation

ASSUMPTIONS = [
    "values whose domain membership the documentation does not settle are not probed: bool for int, numpy scalar types, a list where an array is "
    "documented, non-integer entries inside a group, empty groups, proportions that sum to 1 only up to rounding",
]
OBJ = ("tag", "object")
INT1 = {"in": [1, 2], "out": [0, -1, 1.5, "3", None, [2], OBJ]}                       # integer >= 1
INT1N = {"in": [1, 2, None], "out": [0, -1, 1.5, "3", [2], OBJ]}                      # integer >= 1 or None
POS = {"in": [1e-9, 0.5, 3.0], "out": [0, 0.0, -0.1, "0.1", None, [0.1], OBJ]}        # real > 0
NONNEG = {"in": [0.0, 0.5], "out": [-0.1, -1, "0.1", None, [0.1], OBJ]}               # real >= 0
BOOL = {"in": [True, False], "out": ["yes", None, 2.5, [True], OBJ]}
RS = {"in": [0, 7, None, ("tag", "randomstate")], "out": [-1, "a", 1.5, [1], OBJ]}
DICTN = {"in": [None, ("tag", "emptydict")], "out": ["a", 3, [1], OBJ]}
GEM = {"in": ["mmd_ovo", "mi", "tv_ova", None, ("tag", "gemini_instance")], "out": ["foo", "MMD_OVA", 3, OBJ, ["mmd_ova"]]}
SOLVER = {"in": ["sgd", "adam"], "out": ["lbfgs", "SGD", 1, None, OBJ]}
KERNEL = {"in": ["rbf", "cosine", "polynomial", ("tag", "kernel_callable")], "out": ["foo", "RBF", 3, None, OBJ]}
METRIC = {"in": ["l1", "cosine", "manhattan"], "out": ["foo", "L1", 3, None, OBJ]}
BASEK = {"in": ["rbf", "sigmoid", ("tag", "kernel_callable")], "out": ["precomputed", "foo", 3, None, OBJ]}

BASE = {"n_clusters": INT1, "max_iter": INT1, "learning_rate": POS, "solver": SOLVER, "verbose": BOOL, "random_state": RS}
BATCH = {"batch_size": INT1N}
DOMAINS = {
    "LinearModel": {**BASE, **BATCH, "gemini": GEM},
    "LinearMMD": {**BASE, **BATCH, "kernel": KERNEL, "kernel_params": DICTN, "ovo": BOOL},
    "LinearWasserstein": {**BASE, **BATCH, "metric": METRIC, "metric_params": DICTN, "ovo": BOOL},
    "RIM": {**BASE, **BATCH, "reg": NONNEG},
    "KernelRIM": {**BASE, **BATCH, "reg": NONNEG, "base_kernel": BASEK, "base_kernel_params": DICTN},
    "MLPModel": {**BASE, **BATCH, "gemini": GEM, "n_hidden_dim": INT1},
    "MLPMMD": {**BASE, **BATCH, "kernel": KERNEL, "kernel_params": DICTN, "ovo": BOOL, "n_hidden_dim": INT1},
    "MLPWasserstein": {**BASE, **BATCH, "metric": METRIC, "metric_params": DICTN, "ovo": BOOL, "n_hidden_dim": INT1},
    "SparseLinearModel": {**BASE, **BATCH, "gemini": GEM, "alpha": NONNEG, "dynamic": BOOL},
    "SparseLinearMMD": {**BASE, **BATCH, "kernel": KERNEL, "kernel_params": DICTN, "ovo": BOOL, "alpha": NONNEG, "dynamic": BOOL},
    "SparseLinearMI": {**BASE, **BATCH, "alpha": NONNEG},
    "SparseMLPModel": {**BASE, **BATCH, "gemini": GEM, "alpha": NONNEG, "dynamic": BOOL, "M": NONNEG, "n_hidden_dim": INT1},
    "SparseMLPMMD": {**BASE, **BATCH, "kernel": KERNEL, "kernel_params": DICTN, "ovo": BOOL, "alpha": NONNEG, "dynamic": BOOL, "M": NONNEG, "n_hidden_dim": INT1},
    "CategoricalModel": {**BASE, "gemini": GEM},
    "CategoricalMMD": {**BASE, "kernel": KERNEL, "kernel_params": DICTN, "ovo": BOOL},
    "CategoricalWasserstein": {**BASE, "metric": METRIC, "metric_params": DICTN, "ovo": BOOL},
    "Douglas": {**BASE, **BATCH, "gemini": GEM, "n_cuts": {"in": [1, 2], "out": [0, -1, 1.5, "2", [1], OBJ]}, "temperature": POS,
                "feature_mask": {"in": [None, ("tag", "mask_ok")], "out": [("tag", "mask_long"), ("tag", "mask_short"), "abc", 3, OBJ]}},
    "Kauri": {"max_clusters": INT1, "max_depth": INT1N, "min_samples_split": {"in": [2, 3], "out": [1, 0, -1, 2.5, "2", None, OBJ]},
              "min_samples_leaf": {"in": [1], "out": [0, -1, 1.5, "1", None, OBJ]}, "max_features": INT1N,
              "max_leaves": {"in": [2, 3, None], "out": [1, 0, -1, 2.5, "2", OBJ]},
              "kernel": {"in": ["rbf", "cosine"], "out": ["foo", 3, None, OBJ]}, "verbose": BOOL, "random_state": RS},
}
N, D = 6, 3


def _value(v):
    if isinstance(v, tuple) and len(v) == 2 and v[0] == "tag" or (isinstance(v, list) and len(v) == 2 and v[0] == "tag"):
        tag = v[1]
        if tag == "object":
            return object()
        if tag == "randomstate":
            return np.random.RandomState(3)
        if tag == "emptydict":
            return {}
        if tag == "gemini_instance":
            from gemclus.gemini import TVGEMINI
            return TVGEMINI(ovo=True)
        if tag == "kernel_callable":
            from mc.affinity import my_kernel, my_kernel_pair
            return my_kernel
        if tag == "mask_ok":
            return np.array([True, False, True])
        if tag == "mask_long":
            return np.array([True, False, True, True])
        if tag == "mask_short":
            return np.array([True, False])
        if tag == "kauri":
            return M.make("Kauri")
        raise ValueError(tag)
    return v


def _fit_probe(model, X, y=None):
    """Runs fit with an optimiser-step counter; returns (exception or None, steps)."""
    steps = {"n": 0}

    def cb(opt, params, grads):
        steps["n"] += 1
    err = None
    with warnings.catch_warnings():
        warnings.simplefilter("ignore")
        with seams.optimiser_spy(cb):
            try:
                model.fit(X, y)
            except Exception as e:  # noqa
                err = e
    return err, steps["n"]


def _judge(err, steps, model, expect_in, v, where, detail):
    if expect_in:
        if err is not None:
            v.append(violation("in_domain_value_rejected", dict(detail, error=repr(err)[:300]), exc=type(err).__name__, **where))
    else:
        if err is None:
            v.append(violation("out_of_domain_value_accepted", detail, **where))
        elif not isinstance(err, (ValueError, TypeError)):
            v.append(violation("rejected_with_an_error_outside_the_ValueError_TypeError_family", dict(detail, error=repr(err)[:300]), exc=type(err).__name__, **where))
        if err is not None and steps > 0:
            v.append(violation("trained_before_rejecting", dict(detail, optimiser_steps=steps), **where))
        if err is not None and hasattr(model, "labels_"):
            v.append(violation("fitted_attributes_left_after_failed_fit", detail, **where))
        probe = detail.get("_probe_X") if isinstance(detail, dict) else None
        if err is not None and probe is not None and hasattr(model, "predict"):
            # behavioural reading of 'left without a fitted model': the refused estimator cannot predict / score / be printed
            for call in ("predict", "score"):
                try:
                    with warnings.catch_warnings(), contextlib.redirect_stdout(io.StringIO()):
                        warnings.simplefilter("ignore")
                        getattr(model, call)(probe)
                    v.append(violation("refused_estimator_still_answers", {k_: x_ for k_, x_ in detail.items() if k_ != "_probe_X"} | {"call": call}, **where))
                except Exception:  # noqa
                    pass
            if type(model).__name__ == "Kauri":
                try:
                    from gemclus.tree import print_kauri_tree
                    with contextlib.redirect_stdout(io.StringIO()):
                        print_kauri_tree(model)
                    v.append(violation("refused_estimator_still_answers", {"call": "print_kauri_tree"}, **where))
                except Exception:  # noqa
                    pass


def param_case(case):
    name, param, val, expect_in, seed = case
    X = seams.tiny_data(N, D, seed + 80)
    value = _value(val)
    if name == "Kauri" and param == "kernel" and value == "callable":
        pass
    kw = {param: value}
    if name == "KernelRIM" and param == "base_kernel" and callable(value):
        from mc.affinity import my_kernel
        kw = {param: my_kernel}
    where = dict(target=name, param=param, value=repr(val)[:60], expect="in" if expect_in else "out")
    v = []
    try:
        with warnings.catch_warnings():
            warnings.simplefilter("ignore")
            model = M.make(name, **kw)
    except Exception as e:  # noqa - constructors do not validate in scikit-learn style, but if they do it counts as the rejection
        _judge(e, 0, type("X", (), {})(), expect_in, v, where, {"stage": "constructor"})
        return {"v": v, "nt": [case], "stats": {"evals": 1}}
    err, steps = _fit_probe(model, X)
    _judge(err, steps, model, expect_in, v, where, {"stage": "fit", "_probe_X": X})
    for x_ in v:
        x_["detail"] = x_["detail"].replace("_probe_X", "probe")[:600]
    return {"v": v, "nt": [case], "out": [(name, param, expect_in, type(err).__name__ if err else "ok")], "stats": {"evals": 1},
            "sample": {"estimator": name, "param": param, "value": repr(val), "expected": "accepted" if expect_in else "rejected"}}


def groups_case(case):
    name, first, seed = case
    X = seams.tiny_data(N, D, seed + 80)
    idx = [-1, 0, 1, 2, 3]
    nonempty = [list(c) for r in (1, 2) for c in itertools.permutations(idx, r)] + [[0, 0], [0, 1, 2], [1, 2, 3], [0, 1, 2, 3]]
    v, n, nt = [], 0, 0
    menus = [[first]] + [[first, g] for g in nonempty] + [[first, g, h] for g in nonempty[:12] for h in nonempty[:12]]
    for groups in menus:
        flat = [i for g in groups for i in g]
        valid = all(0 <= i < D for i in flat) and len(set(flat)) == len(flat)
        n += 1
        given = [list(g) for g in groups]
        model = M.make(name, groups=given, alpha=0.1, max_iter=1)
        err, steps = _fit_probe(model, X)
        where = dict(target=name, param="groups", expect="in" if valid else "out")
        _judge(err, steps, model, valid, v, where, {"groups": groups})
        if valid and err is None:
            nt += 1
            # the user's list object is a value, not a scratch buffer: the very same object stays valid for another estimator on narrower
            # data (every index it names exists there) and still reads as it was written
            if given != [list(g) for g in groups]:
                v.append(violation("in_domain_value_rejected", {"groups_as_given": groups, "same_list_after_fit": given,
                                                                "why": "the caller's list was rewritten by fit"}, **dict(where, expect="in", history="same list object reused")))
            width = max(flat) + 1
            if width < D:
                err2, _ = _fit_probe(M.make(name, groups=given, alpha=0.1, max_iter=1), X[:, :width])
                if err2 is not None:
                    v.append(violation("in_domain_value_rejected", {"groups": groups, "history": f"list object first used on {D} features, then on {width}", "error": repr(err2)[:200]},
                                       **dict(where, expect="in", history="same list object reused")))
            exp = [list(g) for g in groups] + [[i] for i in range(D) if i not in flat]
            if [list(map(int, g)) for g in model.groups_] != exp:
                v.append(violation("partial_group_list_not_completed_by_singletons", {"groups": groups, "groups_": model.groups_}, **where))
    seen, vs = set(), []
    for x in v:
        k = (x["kind"], x["where"].get("expect"))
        if k not in seen:
            seen.add(k)
            vs.append(x)
    return {"v": vs, "stats": {"evals": n, "nt_distinct": nt}, "sample": {"estimator": name, "first_group": first, "group_lists": n}}


def combo_case(case):
    kind, arg, seed = case
    X = seams.tiny_data(N, D, seed + 80)
    v = []
    if kind == "kauri_leaf_split":
        msl, mss = arg
        valid = 2 * msl <= mss
        model = M.make("Kauri", min_samples_leaf=msl, min_samples_split=mss)
        err, steps = _fit_probe(model, X)
        _judge(err, steps, model, valid, v, dict(target="Kauri", param="min_samples_leaf/min_samples_split", expect="in" if valid else "out"), {"leaf": msl, "split": mss, "_probe_X": X})
    elif kind in ("data", "data_after_refusals"):
        name, tag = arg
        if kind == "data_after_refusals":
            # history: other objects were refused / took their fallbacks earlier in this process (with warnings as errors and silenced)
            from mc import failures
            failures.failing_prelude(seed)
        bad = {"nan": lambda: np.where(np.eye(N, D) > 0, np.nan, X), "inf": lambda: np.where(np.eye(N, D) > 0, np.inf, X),
               "strings": lambda: np.array([["a", "b", "c"]] * N, dtype=object),
               # text that happens to spell numbers is still non-numeric data (str / bytes arrays, nested lists of str)
               "numeric_text": lambda: np.array([[repr(float(x)) for x in row] for row in X]),
               "numeric_text_list": lambda: [[repr(float(x)) for x in row] for row in X],
               "numeric_bytes": lambda: np.array([[repr(float(x)).encode() for x in row] for row in X]),
               # (object arrays whose cells parse as numbers are converted by scikit-learn's own validation convention: not in the menu)
               "one_dim": lambda: X[:, 0], "three_dim": lambda: X.reshape(N, D, 1),
               "empty": lambda: np.empty((0, D)), "no_features": lambda: np.empty((N, 0)), "scalar": lambda: 3.0, "none": lambda: None,
               "fewer_samples_than_clusters": lambda: X[:2], "complex": lambda: X.astype(complex) + 1j}[tag]()
        model = M.make(name) if name != "Kauri" else M.make("Kauri", min_samples_leaf=3, min_samples_split=6)
        err, steps = _fit_probe(model, bad)
        _judge(err, steps, model, False, v, dict(target=name, param="X", value=tag, expect="out", history="after refusals" if kind != "data" else "none"), {"data": tag, "_probe_X": X})
    elif kind == "missing_matrix":
        name, shape = arg
        Xs = seams.tiny_data(shape[0], shape[1], seed + 83)
        spec = {"metric": "precomputed"} if name in M.HAS_METRIC else {"kernel": "precomputed"}
        model = M.make(name, **spec)
        err, steps = _fit_probe(model, Xs)
        w_ = dict(target=name, param="kernel/metric='precomputed' without a matrix", value=f"X of shape {shape}", expect="out")
        # refused before any training step and without labels_ (whether the initialised, untrained weights may remain is not settled by the property)
        if err is None or steps or hasattr(model, "labels_"):
            v.append(violation("out_of_domain_value_accepted", {"shape": list(shape), "error": repr(err), "optimiser_steps": steps, "has_labels_": hasattr(model, "labels_")}, **w_))
        elif not isinstance(err, (ValueError, TypeError)):
            v.append(violation("rejected_with_an_error_outside_the_ValueError_TypeError_family", {"error": repr(err)[:200]}, **w_))
    elif kind in ("before_fit", "before_fit_transported"):
        name, call = arg
        model = M.make(name)
        if kind == "before_fit_transported":
            # a never-fitted estimator, and one whose fit was refused, after a pickle / deepcopy / cloudpickle round trip (sent to a worker, copied
            # inside a pipeline): still without a model
            from mc import transport
            if name == "Kauri" and seed % 2 == 0:
                model = M.make("Kauri", min_samples_leaf=3, min_samples_split=4)
                try:
                    model.fit(X)
                except Exception:  # noqa
                    pass
            elif seed % 2 == 0:
                try:
                    model.fit(np.where(np.eye(N, D) > 0, np.nan, X))
                except Exception:  # noqa
                    pass
            model = transport.roundtrip(model, transport.pick((name, call)))
        try:
            buf = io.StringIO()
            with contextlib.redirect_stdout(buf), warnings.catch_warnings():
                warnings.simplefilter("ignore")
                if call == "print_kauri_tree":
                    from gemclus.tree import print_kauri_tree
                    print_kauri_tree(model)
                elif call == "score":
                    model.score(X)
                else:
                    getattr(model, call)(X) if call != "get_selection" else model.get_selection()
            v.append(violation("call_before_fit_returns", {"estimator": name, "call": call}, target=name, param=call, expect="out"))
        except Exception:
            pass
    return {"v": v, "nt": [case], "stats": {"evals": 1}, "sample": {"kind": kind, "arg": arg}}


FUNCS = {
    # function: base kwargs, per-parameter domains
    "draw_gmm": ({"n": 5, "loc": [[0.0, 0.0], [1.0, 1.0]], "scale": [[[1.0, 0.0], [0.0, 1.0]]] * 2, "pvals": [0.5, 0.5], "random_state": 0},
                 {"n": {"in": [1, 3], "out": [0, -1, 2.5, "3", None]}, "random_state": RS,
                  "loc": {"in": [], "out": [3, "ab", None]}, "pvals": {"in": [], "out": [3, "ab", None, [0.5, 0.6], [1.0, 0.0]]},
                  # covariances: positive SEMI-definite (singular, widely different units) in; anything with a clearly negative eigenvalue out,
                  # also when another component of the mixture lives in much larger units
                  "scale": {"in": [[[[1.0, 1.0], [1.0, 1.0]], [[2.0, 0.0], [0.0, 0.5]]], [[[1e7, 0.0], [0.0, 1e7]], [[1e-2, 0.0], [0.0, 1e-2]]]],
                            "out": [[[[1.0, 0.0], [0.0, 1.0]], [[1.0, 2.0], [2.0, 1.0]]], [[[1e7, 0.0], [0.0, 1e7]], [[1e-2, 2e-2], [2e-2, 1e-2]]],
                                    [[[1e-2, 2e-2], [2e-2, 1e-2]], [[1e7, 0.0], [0.0, 1e7]]], [[[-1.0, 0.0], [0.0, -1.0]], [[1e12, 0.0], [0.0, 1e12]]],
                                    [[[0.0, 0.0], [0.0, 0.0]], [[1.0, 0.0], [0.0, 1.0]]], 3, None]}}),
    "multivariate_student_t": ({"n": 4, "loc": [0.0, 1.0], "scale": [[1.0, 0.0], [0.0, 1.0]], "df": 3, "random_state": 0},
                               {"n": {"in": [1], "out": [0, -1, 2.5, "3", None]}, "df": {"in": [0.5, 1, 10], "out": [0, -1, "3", None]}, "random_state": RS,
                                "scale": {"in": [], "out": [[[1.0, 0.0, 0.0], [0.0, 1.0, 0.0]], 3, None]}}),
    "gstm": ({"n": 8, "alpha": 2, "df": 1, "random_state": 0},
             {"n": {"in": [4, 5], "out": [3, 0, -1, 4.5, "8", None]}, "alpha": {"in": [0.1, 5], "out": [0, -1, "2", None]},
              "df": {"in": [0.5, 3], "out": [0, -1, "1", None]}, "random_state": RS}),
    "celeux_one": ({"n": 5, "p": 2, "mu": 1.7, "random_state": 0},
                   {"n": {"in": [1], "out": [0, -1, 2.5, "3", None]}, "p": {"in": [1, 4], "out": [0, -1, 2.5, "2", None]},
                    "mu": {"in": [0.1], "out": [0, -1, "1", None]}, "random_state": RS}),
    "celeux_two": ({"n": 5, "random_state": 0}, {"n": {"in": [1], "out": [0, -1, 2.5, "3", None]}, "random_state": RS}),
}
GEMINI_CTORS = {
    "KLGEMINI": {"ovo": BOOL, "epsilon": {"in": [1e-12, 1e-3, 0.5], "out": [0, 0.0, 1, 1.0, -0.1, 2, "1e-12", None]}},
    "TVGEMINI": {"ovo": BOOL, "epsilon": {"in": [1e-12, 0.5], "out": [0, 1, -0.1, "x", None]}},
    "HellingerGEMINI": {"ovo": BOOL, "epsilon": {"in": [1e-12], "out": [0, 1, None]}},
    "ChiSquareGEMINI": {"ovo": BOOL, "epsilon": {"in": [1e-12], "out": [0, 1, None]}},
    "MI": {"epsilon": {"in": [1e-12, 0.5], "out": [0, 1, -1, None]}},
    "MMDGEMINI": {"ovo": BOOL, "kernel": {"in": ["rbf", "precomputed", ("tag", "kernel_callable")], "out": ["foo", 3, None]}, "kernel_params": DICTN,
                  "epsilon": {"in": [1e-12], "out": [0, 1, None]}},
    "WassersteinGEMINI": {"ovo": BOOL, "metric": {"in": ["l1", "precomputed", "cosine"], "out": ["foo", 3, None]}, "metric_params": DICTN,
                          "epsilon": {"in": [1e-12], "out": [0, 1, None]}},
}


def function_case(case):
    kind, fn, param, val, expect_in, seed = case
    v = []
    value = _value(val)
    where = dict(target=fn, param=param, value=repr(val)[:60], expect="in" if expect_in else "out")
    err = None
    try:
        with warnings.catch_warnings(), contextlib.redirect_stdout(io.StringIO()):
            warnings.simplefilter("ignore")
            if kind == "data":
                from gemclus import data as Dm
                kw = dict(FUNCS[fn][0])
                kw[param] = value
                getattr(Dm, fn)(**kw)
            elif kind == "gemini":
                import gemclus.gemini as G
                getattr(G, fn)(**{param: value})
            elif kind == "mlcl":
                from gemclus import add_mlcl_constraint
                from gemclus.linear import LinearModel
                kw = {"gemini_model": LinearModel(), "must_link": [(0, 1)], "factor": 1.0}
                kw[param] = value if not (isinstance(val, (tuple, list)) and val[0] == "tag" and val[1] == "kauri") else M.make("Kauri")
                add_mlcl_constraint(**kw)
            elif kind == "print":
                from gemclus.tree import print_kauri_tree
                X = seams.tiny_data(N, D, seed + 80)
                kw = {"kauri_tree": M.make("Kauri").fit(X), "feature_names": None}
                kw[param] = value
                print_kauri_tree(**kw)
    except Exception as e:  # noqa
        err = e
    _judge(err, 0, type("X", (), {})(), expect_in, v, where, {"stage": "call"})
    return {"v": v, "nt": [case], "stats": {"evals": 1}, "sample": {"function": fn, "param": param, "value": repr(val)}}


def mlcl_sets_case(case):
    """Inconsistent combination of must-link / cannot-link pairs: rejected (and the model left undecorated) iff contradictory."""
    import itertools
    from gemclus import add_mlcl_constraint
    from gemclus.linear import LinearModel
    from oracles import mlcl as mref
    idx, ml_mask = case
    allp = list(itertools.combinations(idx, 2))
    ml = [(p if (t + ml_mask) % 2 else p[::-1]) for t, p in enumerate(allp) if ml_mask >> t & 1]
    v, nt = [], 0
    for cl_mask in range(1 << len(allp)):
        cl = [(p if (t + cl_mask) % 3 else p[::-1]) for t, p in enumerate(allp) if cl_mask >> t & 1]
        expected = mref.consistent(ml, cl)
        model = LinearModel()
        plain = model._batchify
        try:
            add_mlcl_constraint(model, ml or None, cl or None, 1.0)
            accepted = True
        except ValueError:
            accepted = False
        where = dict(target="add_mlcl_constraint", param="must_link+cannot_link")
        if accepted != expected:
            v.append(violation("accepted_out_of_domain" if accepted else "rejected_in_domain",
                               {"must_link": ml, "cannot_link": cl, "accepted": accepted, "expected": expected}, **where))
        elif not accepted and (getattr(model._batchify, "indices", None) is not None or model._batchify != plain):
            v.append(violation("refused_but_decorated", {"must_link": ml, "cannot_link": cl}, **where))
        nt += bool(ml and cl)
    return {"v": v[:6], "stats": {"evals": 1 << len(allp), "nt_distinct": nt}, "sample": {"indices": list(idx), "must_link": ml}}


def explorers(tier, seed):
    c1 = []
    for name, dom in DOMAINS.items():
        for param, d in dom.items():
            for val in d["in"]:
                c1.append((name, param, val, True, seed))
            for val in d["out"]:
                c1.append((name, param, val, False, seed))
    firsts = [[0], [1], [0, 1], [2, 0], [0, 1, 2], [3], [-1], [0, 3], [1, 1], [2, 1, 0]]
    c2 = [(name, f, seed) for name in M.SPARSE for f in firsts]
    c3 = [("kauri_leaf_split", (l, s), seed) for l in (1, 2, 3) for s in (2, 3, 4, 5, 6)]
    tags = ["nan", "inf", "strings", "numeric_text", "numeric_text_list", "numeric_bytes", "one_dim", "three_dim", "empty", "no_features", "scalar", "none", "fewer_samples_than_clusters", "complex"]
    c3 += [("data", (name, t), seed) for name in M.ESTIMATORS for t in tags]
    c3 += [("data_after_refusals", (name, t), seed) for name in M.ESTIMATORS for t in ("nan", "inf", "numeric_text", "one_dim", "fewer_samples_than_clusters")]
    for name in M.ESTIMATORS:
        calls = ["predict", "score"] + (["predict_proba"] if name != "Kauri" else ["print_kauri_tree"]) + \
                (["get_selection"] if name in M.SPARSE else []) + (["find_active_points"] if name == "Douglas" else [])
        c3 += [("before_fit", (name, c), seed) for c in calls]
        c3 += [("before_fit_transported", (name, c), seed + s_) for c in calls for s_ in (0, 1)]
    c3 += [("missing_matrix", (name, shape), seed) for name in M.HAS_KERNEL + M.HAS_METRIC if name != "Kauri" for shape in ((6, 3), (5, 5), (4, 4), (6, 6))]
    c4 = []
    for fn, (base, dom) in FUNCS.items():
        for param, d in dom.items():
            c4 += [("data", fn, param, val, True, seed) for val in d["in"]] + [("data", fn, param, val, False, seed) for val in d["out"]]
    for fn, dom in GEMINI_CTORS.items():
        for param, d in dom.items():
            c4 += [("gemini", fn, param, val, True, seed) for val in d["in"]] + [("gemini", fn, param, val, False, seed) for val in d["out"]]
    c4 += [("mlcl", "add_mlcl_constraint", "factor", val, True, seed) for val in (0.1, 1, 10.0)] + \
          [("mlcl", "add_mlcl_constraint", "factor", val, False, seed) for val in (0, -1, "1", None)] + \
          [("mlcl", "add_mlcl_constraint", "gemini_model", val, False, seed) for val in (None, 3, "model", ("tag", "kauri"), OBJ)]
    c4 += [("print", "print_kauri_tree", "feature_names", val, True, seed) for val in (None, ["a", "b", "c"])] + \
          [("print", "print_kauri_tree", "feature_names", val, False, seed) for val in (3, OBJ)] + \
          [("print", "print_kauri_tree", "kauri_tree", val, False, seed) for val in (None, 3, "tree", OBJ)]
    c5 = [(idx, m) for idx in ((0, 1, 2, 3), (9, 2, 40, 5)) for m in range(64)]
    return [
        Explorer("mlcl_pair_set_combinations", "props.c16", "mlcl_sets_case", c5, chunk=8, floor=100,
                 rule="inconsistent combination for add_mlcl_constraint: ALL 2^6 must-link x 2^6 cannot-link pair sets over 4 sample indices "
                      "(contiguous and unordered non-contiguous), mixed orientations; rejected with ValueError and the model left undecorated iff a "
                      "cannot-link pair lies inside a must-link component (union-find oracle); non-trivial = both sets non-empty"),
        Explorer("estimator_hyperparameters", "props.c16", "param_case", c1, chunk=16, floor=300,
                 rule="18 estimators x every constructor hyperparameter x probe menu (in-domain: boundary and typical values; out-of-domain: just outside each "
                      "interval end, 0, -1, None, wrong types str/float-for-int/list/object()); one parameter deviates from a valid base; in-domain must fit, "
                      "out-of-domain must raise ValueError/TypeError before any optimiser step and leave no labels_"),
        Explorer("group_lists", "props.c16", "groups_case", c2, chunk=1, floor=20,
                 rule="ALL lists of up to 3 non-empty groups (first group from a menu x all 1-2 element groups over {-1,0,1,2,3}) for d=3 on the 5 sparse estimators: "
                      "valid iff indices in range and pairwise distinct; valid partial lists completed by singletons; non-trivial = accepted list"),
        Explorer("combinations_data_and_unfitted", "props.c16", "combo_case", c3, chunk=8, floor=100,
                 rule="2*min_samples_leaf vs min_samples_split grid; malformed data menu x 18 estimators; public calls before fit"),
        Explorer("functions_and_constructors", "props.c16", "function_case", c4, chunk=16, floor=100,
                 rule="data functions, GEMINI constructors, add_mlcl_constraint and print_kauri_tree: per-parameter probe menus"),
    ]
