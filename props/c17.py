"""
C17 - results stay finite on degenerate and badly scaled but legal inputs.
Engine E1: all 18 estimators x GEMINIs x solver x data family {plain, x10, x1000, constant column, duplicated column,
duplicated rows, all rows equal, n = K} x n_clusters {1, 3} x batch_size {None, 1} x {fit, path}; every direction handed
to the optimiser and every parameter after every step is monitored, so a NaN that is later hidden by an arg-max is seen.
"""
import warnings

import numpy as np

from mc import configs as C
from mc import models as M
from mc import seams
from mc.core import Explorer, violation

ASSUMPTIONS = ["n=6 samples, d=3 features; scales up to 1000; learning rate 0.1, 3 epochs"]
FAMILIES = ["plain", "x10", "x1000", "zero_column", "constant_column", "duplicated_column", "duplicated_rows", "all_rows_equal", "n_equals_K", "tiny_scale",
            "copies_x4", "all_equal_20", "single_sample"]


def make_data(family, seed):
    X = seams.tiny_data(6, 3, seed + 90)
    if family == "x10":
        X = X * 10
    elif family == "x1000":
        X = X * 1000
    elif family == "tiny_scale":
        X = X * 1e-6
    elif family == "zero_column":
        X[:, 0] = 0.0
    elif family == "constant_column":
        X[:, 1] = 2.5
    elif family == "duplicated_column":
        X[:, 2] = X[:, 0]
    elif family == "duplicated_rows":
        X[3:] = X[:3]
    elif family == "all_rows_equal":
        X[:] = X[0]
    elif family == "n_equals_K":
        X = X[:3]
    elif family == "copies_x4":           # every sample present four times (24 rows): quantities that vanish in exact arithmetic are rounding noise
        X = np.tile(X, (4, 1))
    elif family == "all_equal_20":
        X = np.tile(X[:1], (20, 1))
    elif family == "single_sample":       # one sample (legal with one cluster; for Kauri with any max_clusters)
        X = X[:1]
    return X


def gemini_case(case):
    """GEMINI level: saturated / sample-independent / single-cluster predictions x degenerate affinities (constant, rank one, copies of few
    samples, kernels of features scaled by 1000): score and gradient are finite, with and without the gradient requested."""
    ti, akind, pkind, n, t, seed = case
    from props.c02 import TARGETS, _gemini
    from sklearn.metrics import pairwise_distances, pairwise_kernels
    target, dist = TARGETS[ti]
    rs = np.random.RandomState(70_000 + 13 * seed + 7 * t + n)
    base = rs.normal(size=(n, 3))
    if akind == "copies":
        base = np.tile(base[: max(2, n // 4)], (n, 1))[:n]
    elif akind == "all_equal":
        base = np.tile(base[:1], (n, 1))
    elif akind == "x1000":
        base = base * 1000
    A = None
    if dist == "mmd":
        if akind == "rank_one":
            u = rs.normal(size=n)
            A = np.outer(u, u)
        elif akind == "constant":
            A = np.full((n, n), 0.7)
        else:
            A = pairwise_kernels(base, metric=("sigmoid", "rbf", "linear", "poly")[t % 4])
    elif dist == "wasserstein":
        A = pairwise_distances(base, metric=("euclidean", "l1")[t % 2])
        if akind in ("rank_one", "constant"):
            A = np.abs(np.subtract.outer(base[:, 0], base[:, 0])) if akind == "rank_one" else (1 - np.eye(n)) * 0.7
    K = 1 if pkind == "single_cluster" else 3
    if pkind == "one_hot":
        P = np.eye(K)[rs.randint(K, size=n)]
    elif pkind == "rows_equal":
        P = np.tile(rs.dirichlet(np.ones(K)), (n, 1))
    elif pkind == "near_uniform":
        P = np.full((n, K), 1.0 / K) + 1e-9 * rs.normal(size=(n, K))
        P = P / P.sum(1, keepdims=True)
    elif pkind == "empty_cluster":
        P = np.concatenate([rs.dirichlet(np.ones(2), size=n), np.zeros((n, 1))], axis=1)
    elif pkind == "single_cluster":
        P = np.ones((n, 1))
    else:
        P = rs.dirichlet(np.ones(K), size=n)
    g = _gemini(target, {"kernel": "precomputed"} if dist == "mmd" else ({"metric": "precomputed"} if dist == "wasserstein" else {}))
    where = dict(estimator="-", gemini=f"{target[0]}(ovo={target[1]})", data=akind, predictions=pkind, n=n)
    v = []
    with np.errstate(all="ignore"), warnings.catch_warnings():
        warnings.simplefilter("ignore")
        try:
            s0 = g(P.copy(), A)
            s1, G = g(P.copy(), A, return_grad=True)
        except Exception as e:  # noqa
            return {"v": [violation("raises_on_legal_input", {"error": repr(e)[:300]}, exc=type(e).__name__, **where)], "stats": {"evals": 1}}
    if pkind in ("one_hot", "single_cluster", "empty_cluster") and np.all((P == 0) | (P == 1)):
        # a hard partition may come as an integer or boolean indicator matrix: same finite score and gradient as its float copy
        for dt in (np.int64, np.int8, bool, np.float32):
            try:
                with np.errstate(all="ignore"), warnings.catch_warnings():
                    warnings.simplefilter("ignore")
                    sd, Gd = g(P.astype(dt), A, return_grad=True)
                okd = np.isfinite(sd) and np.all(np.isfinite(np.asarray(Gd, dtype=float))) and abs(float(sd) - float(s1)) <= 1e-5 * max(1.0, abs(float(s1))) + (1e-3 * np.sqrt(np.abs(A).max()) if dist == "mmd" and dt == np.float32 else 0)
            except Exception as e:  # noqa
                okd, sd = False, repr(e)[:120]
            if not okd and np.isfinite(s1):
                v.append(violation("non_finite_score", {"predictions_dtype": str(np.dtype(dt)), "score": sd if isinstance(sd, str) else float(sd), "float64_score": float(s1)}, **where))
                break
    if not (np.isfinite(s0) and np.isfinite(s1)):
        v.append(violation("non_finite_score", {"score": float(s0), "with_gradient": float(s1), "P": P if n <= 6 else "seeded"}, **where))
    if not np.all(np.isfinite(G)):
        v.append(violation("non_finite_gradient", {"n_bad": int((~np.isfinite(G)).sum()), "P": P if n <= 6 else "seeded"}, **where))
    return {"v": v, "nt": [case], "stats": {"evals": 2}, "out": [(ti, akind, pkind)], "sample": {"config": where}}


def finite_case(case):
    name, gemini, solver, family, K, bs, mode, seed = case[:8]
    route = case[8] if len(case) > 8 else "ctor"
    X = make_data(family, seed)
    n = len(X)
    spec = {"random_state": seed, "solver": solver}
    if name == "Kauri":
        spec = {"random_state": seed, "max_clusters": K}
    else:
        spec["n_clusters"] = K
        if name in M.GENERIC_GEMINI:
            spec["gemini"] = gemini
        if name in M.BATCHED:
            spec["batch_size"] = bs
        if name in M.SPARSE:
            spec["alpha"] = 0.5
    if route != "ctor":
        spec["_route"] = route
    if "|" in str(gemini):                    # convenience MMD estimator with a non-default kernel
        spec["kernel"] = gemini.split("|")[1]
    model, y, _ = C.build(name, spec, X, seed)
    where = dict(estimator=name, gemini=gemini, solver=solver, data=family, n_clusters=K, batch_size=bs, mode=mode)
    v = []
    state = {"bad_dir": None, "bad_w": None, "steps": 0}

    def cb(opt, params, grads):
        state["steps"] += 1
        if state["bad_dir"] is None and not all(np.all(np.isfinite(g)) for g in grads):
            state["bad_dir"] = state["steps"]

    def after(opt, params):
        if state["bad_w"] is None and not all(np.all(np.isfinite(p)) for p in params):
            state["bad_w"] = state["steps"]
    cb.after = after
    hist = None
    caught = []
    try:
        with warnings.catch_warnings(record=True) as caught:
            warnings.simplefilter("always")
            with seams.optimiser_spy(cb):
                if mode == "path":
                    hist = model.path(X, y, alpha_multiplier=3.0, min_features=1, max_patience=1)
                else:
                    model.fit(X, y)
    except Exception as e:  # noqa
        import traceback
        empty_dyn = "0 feature(s)" in str(e)
        return {"v": [violation("raises_on_legal_input", {"error": repr(e)[:300], "trace": traceback.format_exc()[-700:]}, exc=type(e).__name__,
                                selection_became_empty=empty_dyn, **where)], "stats": {"evals": 1}}
    # "no NaN is produced and then silently turned into a degenerate answer": numpy reports every 0/0, inf-inf and sqrt/log of a negative
    # number with an 'invalid value' RuntimeWarning - none may occur inside fit / path, even when the outputs end up finite
    nanw = [str(w.message) for w in caught if issubclass(w.category, RuntimeWarning) and "invalid value" in str(w.message)]
    if nanw:
        v.append(violation("nan_produced_inside_training", {"warnings": sorted(set(nanw))[:3]}, **where))
    if state["bad_dir"] is not None:
        v.append(violation("non_finite_direction_during_training", {"first_at_step": state["bad_dir"]}, **where))
    if state["bad_w"] is not None:
        v.append(violation("non_finite_parameter_during_training", {"first_at_step": state["bad_w"]}, **where))
    if name != "Kauri":
        if not all(np.all(np.isfinite(w)) for w in model._get_weights()):
            v.append(violation("non_finite_learned_parameter", {}, **where))
        P = model.predict_proba(X)
        if not np.all(np.isfinite(P)):
            v.append(violation("non_finite_probability", {"P": P}, **where))
    with warnings.catch_warnings():
        warnings.simplefilter("ignore")
        try:
            sc = model.score(X, y)
            if not np.isfinite(sc):
                v.append(violation("non_finite_score", {"score": sc}, **where))
        except Exception as e:  # noqa
            v.append(violation("score_raises_on_legal_input", {"error": repr(e)[:300]}, exc=type(e).__name__, **where))
    # held-out batches as a cross-validation loop produces them: a single row, fewer rows than clusters - predict_proba and score complete
    if y is None and name in M.INDUCTIVE:
        for m_ in (1, 2):
            try:
                with warnings.catch_warnings():
                    warnings.simplefilter("ignore")
                    Xq = X[:m_]
                    sq = model.score(Xq)
                    okq = np.isfinite(sq) and (name == "Kauri" or np.all(np.isfinite(model.predict_proba(Xq)))) and len(model.predict(Xq)) == len(Xq)
                if not okq:
                    v.append(violation("non_finite_score", {"rows": m_, "score": sq}, **where))
            except Exception as e:  # noqa
                v.append(violation("score_raises_on_legal_input", {"rows": m_, "error": repr(e)[:300]}, exc=type(e).__name__, **where))
                break
    if hist is not None:
        for i, h in enumerate(hist[1:]):
            if not np.all(np.isfinite(np.asarray(h, dtype=float))):
                v.append(violation("non_finite_path_history", {"history": i, "values": h}, **where))
    labs = np.asarray(model.labels_)
    return {"v": v, "nt": [case] if family != "plain" else [], "out": [(name, family, len(set(labs.tolist())))], "stats": {"evals": 1, "steps": state["steps"]},
            "sample": {"config": where}}


def explorers(tier, seed):
    thorough = tier == "thorough"
    cases = []
    for name in M.ESTIMATORS:
        gems = M.ALL_GEMINIS if name in M.GENERIC_GEMINI else ["fixed"]
        if name in M.HAS_KERNEL:
            gems = gems + ["fixed|rbf", "fixed|sigmoid_p", "fixed|poly_p"]
        for gemini in gems:
            for solver in (("adam", "sgd") if name != "Kauri" else ("-",)):
                for family in FAMILIES:
                    for K in (1, 3):
                        for bs in ((None, 1) if name in M.BATCHED else (None,)):
                            for mode in (("fit", "path") if name in M.SPARSE else ("fit",)):
                                if family == "single_sample" and (K != 1 or mode == "path") and name != "Kauri":
                                    continue
                                if not thorough:
                                    # quick: every (estimator, gemini, family) once with K rotating; solver/batch/K cross product on three families
                                    full = family in ("x1000", "all_rows_equal", "duplicated_rows", "zero_column", "copies_x4", "all_equal_20", "single_sample")
                                    if not full and (solver == "sgd" or bs == 1 or K != (1 if FAMILIES.index(family) % 2 else 3)):
                                        continue
                                cases.append((name, gemini, solver, family, K, bs, mode, seed))
    for name in M.ESTIMATORS:
        g0 = "mi" if name in M.GENERIC_GEMINI else "fixed"
        for family in ("x1000", "all_rows_equal", "zero_column", "copies_x4"):
            for K in (1, 3):
                cases.append((name, g0, "adam" if name != "Kauri" else "-", family, K, None, "fit", seed, "used_set_params"))
    cg = [(ti, a, p_, n, t, seed) for ti in range(13) for a in ("generic", "copies", "all_equal", "x1000", "rank_one", "constant")
          for p_ in ("interior", "one_hot", "rows_equal", "near_uniform", "empty_cluster", "single_cluster") for n in (6, 20, 80)
          for t in range(8 if thorough else 4) if not (a in ("rank_one", "constant") and ti < 9)]
    return [Explorer("degenerate_affinities_and_predictions", "props.c17", "gemini_case", cg, chunk=64, floor=500,
                     rule="13 GEMINI class/flag targets x affinity family {generic, copies of few samples, all samples equal, features x1000, rank-one, constant} "
                          "(MMD kernels sigmoid/rbf/linear/poly, Wasserstein euclidean/l1) x predictions {interior, one-hot, sample-independent rows, uniform +1e-9 noise, "
                          "an empty cluster, a single cluster} x n in {6,20,80} x seed-generic draws: score (with and without gradient) and gradient finite"),
            Explorer("degenerate_inputs", "props.c17", "finite_case", cases, chunk=16, floor=500, case_timeout=600,
                     rule="18 estimators x 13 GEMINIs (generic models) x solver x data family " + str(FAMILIES) + " x n_clusters {1,3} x batch_size {None,1} x "
                          "{fit, path}: no exception, every optimiser direction and parameter finite at every step, finite weights / probabilities / score / "
                          "path histories; quick keeps the full solver x batch x K product on three families; non-trivial = non-plain family",
                     bound="n=6, d=3; full product in thorough")]
