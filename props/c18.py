"""
C18 - predictions are per-sample functions of the fitted model.
Engine E1: 15 inductive estimators x a few fitted states each x ALL non-empty row subsets and ALL row permutations of a
5-row array of new points and of the training array, plus every single row.
"""
import itertools

import numpy as np

from mc import configs as C
from mc import models as M
from mc import seams
from mc.core import Explorer, violation

ASSUMPTIONS = ["5 new points / 5 training points: all 31 subsets and 120 permutations; probabilities compared to 1e-12 (BLAS may block differently per shape)"]
SPECS = {
    "LinearModel": [{}, {"gemini": "wasserstein_ovo", "batch_size": 2}],
    "LinearMMD": [{"kernel": "rbf_g", "ovo": True}], "LinearWasserstein": [{"metric": "l1"}],
    "RIM": [{"reg": 1.0}], "KernelRIM": [{}, {"base_kernel": "rbf_g", "batch_size": 2}, {"base_kernel": "callable"}, {"base_kernel": "rbf"}, {"base_kernel": "laplacian_g"}],
    "MLPModel": [{}, {"gemini": "tv_ova", "n_hidden_dim": 5}], "MLPMMD": [{"kernel": "poly_p"}], "MLPWasserstein": [{"ovo": True}],
    "SparseLinearModel": [{"alpha": 1.0}], "SparseLinearMMD": [{"alpha": 0.5, "groups": [[0, 1]]}], "SparseLinearMI": [{}],
    "SparseMLPModel": [{"alpha": 1.0, "M": 0.5}], "SparseMLPMMD": [{"dynamic": True}],
    "Kauri": [{}, {"max_clusters": 4, "kernel": "rbf"}, {"max_depth": 1}, {"kernel": "pre_psd", "_timestamps": True}],
    "Douglas": [{}, {"n_cuts": 2, "temperature": 1.0}, {"feature_mask": [True, False, True]}],
}


def predict_case(case):
    name, si, seed = case[:3]
    spec = dict(SPECS[name][si], random_state=seed, max_iter=4) if name != "Kauri" else dict(SPECS[name][si], random_state=seed)
    spec = dict(spec)
    n, d = 5, 3
    if len(case) > 3 and case[3] == "square":       # coinciding sizes: as many features as training samples (and as query points)
        d = 5
        if "feature_mask" in spec or "groups" in spec:
            return {"v": [], "stats": {"evals": 0}}
    Xtr = seams.tiny_data(n, d, seed + 40)
    Xnew = seams.tiny_data(5, d, seed + 41) * 1.5
    Xbig = seams.tiny_data(8, d, seed + 42) * 1.2        # more rows than the training set
    if spec.pop("_timestamps", False):
        # a feature of large magnitude whose values differ by less than float32 resolution (epoch-like time stamps)
        Xtr = Xtr.copy()
        Xnew = Xnew.copy()
        Xtr[:, 0] = 1.7e9 + 7.0 * np.arange(n)
        Xnew[:, 0] = 1.7e9 + 7.0 * np.arange(5) + 3.0
    model, y, _ = C.build(name, spec, Xtr, seed)
    if name == "Kauri" and SPECS[name][si].get("_timestamps"):
        Z = Xtr - Xtr.mean(0)
        y = Z @ Z.T
    model.fit(Xtr, y)
    if si % 2 == 0:
        # event: a refit of the same object is refused (non-finite data; for Kauri also a kernel that rejects the data, with warnings as errors):
        # the object keeps answering as ONE model - per-sample predictions consistent with its labels_
        import warnings
        keep = model.get_params(deep=False)
        bad_X = Xtr.copy()
        bad_X[0, 0] = np.nan
        for attempt_ in ((lambda: model.fit(bad_X, y)), (lambda: model.set_params(kernel="chi2").fit(Xtr - 50.0)) if name == "Kauri" else None):
            if attempt_ is None:
                continue
            try:
                with warnings.catch_warnings():
                    warnings.simplefilter("error")
                    attempt_()
            except Exception:  # noqa
                pass
        model.set_params(**keep)
    where = dict(estimator=name, spec=str(SPECS[name][si]))
    v, n_eval = [], 0
    # the fitted estimator after a pickle / deep-copy / cloudpickle round trip is the same model: same labels, same probabilities on new points;
    # the subset / permutation checks below then run on a copy for half of the cases
    from mc import transport
    ref_l, ref_p = model.predict(Xnew), (model.predict_proba(Xnew) if hasattr(model, "predict_proba") else None)
    # between two queries of this fitted model, OTHER objects of the same class work in the process (other hyperparameters, explicit kernel /
    # metric parameters where this one relies on the defaults, other data): the answers of this one do not move
    try:
        import warnings as _w
        with _w.catch_warnings():
            _w.simplefilter("ignore")
            sib_specs = [dict(n_clusters=2, random_state=seed + 5)] if name != "Kauri" else [dict(max_clusters=2, random_state=seed + 5)]
            klass_ = type(model)
            pars_ = klass_().get_params()
            for key_, val_ in (("base_kernel_params", {"gamma": 1e-3}), ("kernel_params", {"gamma": 1e-3}), ("metric_params", {"squared": True})):
                if key_ in pars_:
                    extra = {"base_kernel": "rbf"} if key_ == "base_kernel_params" else ({"kernel": "rbf"} if key_ == "kernel_params" else {"metric": "euclidean"})
                    sib_specs.append(dict(sib_specs[0], **extra, **{key_: val_}))
            for ss in sib_specs:
                if "max_iter" in pars_:
                    ss["max_iter"] = 2
                sib_ = klass_(**ss)
                Xs_ = seams.tiny_data(6, d, seed + 47) * 3.0
                sib_.fit(Xs_)
                sib_.predict(Xs_[:2])
                sib_.score(Xs_)
    except Exception:  # noqa
        pass
    if not np.array_equal(model.predict(Xnew), ref_l) or (ref_p is not None and not np.array_equal(model.predict_proba(Xnew), ref_p)):
        v.append(violation("answers_change_after_other_objects_worked", {"estimator": name}, **where))
    for kind_, cp_ in transport.copies(model):
        if isinstance(cp_, Exception):
            v.append(violation("transported_copy_answers_differently", {"transport": kind_, "error": repr(cp_)[:200]}, transport=kind_, **where))
            continue
        try:
            same = np.array_equal(cp_.predict(Xnew), ref_l) and (ref_p is None or np.allclose(cp_.predict_proba(Xnew), ref_p, rtol=1e-12, atol=1e-14)) \
                and np.array_equal(cp_.predict(Xtr), model.labels_)
        except Exception as e:  # noqa
            same = False
        if not same:
            v.append(violation("transported_copy_answers_differently", {"transport": kind_}, transport=kind_, **where))
        elif (si + seed) % 2 == 0 and kind_ == transport.pick((name, si)):
            model = cp_
    has_proba = hasattr(model, "predict_proba")
    pred_tr = model.predict(Xtr)
    if not np.array_equal(pred_tr, model.labels_):
        v.append(violation("training_predictions_differ_from_labels", {"predict": pred_tr, "labels_": model.labels_}, **where))
    for tag, X in (("new", Xnew), ("train", Xtr)):
        full_l = model.predict(X)
        full_p = model.predict_proba(X) if has_proba else None
        idxs = [list(s) for r in range(1, 6) for s in itertools.combinations(range(5), r)] + [list(p) for p in itertools.permutations(range(5))]
        for idx in idxs:
            n_eval += 1
            sub = X[idx]
            l = model.predict(sub)
            if not np.array_equal(l, full_l[idx]):
                v.append(violation("label_depends_on_other_rows", {"rows": idx, "array": tag, "subset_prediction": l, "full_prediction_rows": full_l[idx]}, array=tag, **where))
                break
            if has_proba:
                p = model.predict_proba(sub)
                if p.shape != full_p[idx].shape or not np.allclose(p, full_p[idx], rtol=1e-12, atol=1e-14):
                    v.append(violation("probability_depends_on_other_rows", {"rows": idx, "array": tag, "max_diff": float(np.abs(p - full_p[idx]).max())}, array=tag, **where))
                    break
        # a copy of the data, non-contiguous views and a Fortran-ordered array give the same rows
        for form, Z in (("copy", X.copy()), ("fortran", np.asfortranarray(X)), ("view", np.concatenate([X, X], axis=1)[:, :d])):
            if not np.array_equal(model.predict(Z), full_l):
                v.append(violation("prediction_depends_on_memory_layout", {"form": form, "array": tag}, array=tag, **where))
    # an array longer than the training set: every row alone, every adjacent pair, the reversed array, a 2-row and a (n+1)-row slice
    full_l = model.predict(Xbig)
    full_p = model.predict_proba(Xbig) if has_proba else None
    for idx in [[i] for i in range(8)] + [[i, i + 1] for i in range(7)] + [list(range(7, -1, -1)), list(range(n + 1)), list(range(2, 8))]:
        n_eval += 1
        if not np.array_equal(model.predict(Xbig[idx]), full_l[idx]):
            v.append(violation("label_depends_on_other_rows", {"rows": idx, "array": "big"}, array="big", **where))
            break
        if has_proba and not np.allclose(model.predict_proba(Xbig[idx]), full_p[idx], rtol=1e-12, atol=1e-14):
            v.append(violation("probability_depends_on_other_rows", {"rows": idx, "array": "big"}, array="big", **where))
            break
    # the dtype of the query is not part of the sample: integer-valued points given as int64 / float32 / float64 get the same answers
    Xint = np.round(Xnew * 2).astype(np.int64)
    if not SPECS[name][si].get("_timestamps"):
        ref_l = model.predict(Xint.astype(float))
        for dt in (np.int64, np.int32, np.float32):
            n_eval += 1
            if not np.array_equal(model.predict(Xint.astype(dt)), ref_l):
                v.append(violation("prediction_depends_on_the_dtype_of_the_query", {"dtype": str(np.dtype(dt)), "points": Xint}, array="int", **where))
                break
            if has_proba and dt != np.float32 and not np.allclose(model.predict_proba(Xint.astype(dt)), model.predict_proba(Xint.astype(float)), rtol=1e-12, atol=1e-14):
                v.append(violation("probability_depends_on_the_dtype_of_the_query", {"dtype": str(np.dtype(dt))}, array="int", **where))
                break
    # history: the same object, already used for predictions, is fitted again on other data of the same width
    if not SPECS[name][si].get("_timestamps"):
        Xtr2 = seams.tiny_data(6, d, seed + 43) * 0.8
        _, y2, _ = C.build(name, spec, Xtr2, seed + 1)
        model.fit(Xtr2, y2)
        fresh, yf, _ = C.build(name, spec, Xtr2, seed + 1)
        fresh.fit(Xtr2, yf)
        n_eval += 1
        if not np.array_equal(model.predict(Xtr2), model.labels_):
            v.append(violation("training_predictions_differ_from_labels", {"after": "refit of an object that had predicted before", "predict": model.predict(Xtr2),
                                                                             "labels_": model.labels_}, array="refit", **where))
        if not np.array_equal(model.predict(Xnew), fresh.predict(Xnew)):
            v.append(violation("prediction_depends_on_earlier_fits_and_queries", {"refitted_object": model.predict(Xnew), "fresh_object": fresh.predict(Xnew)}, array="refit", **where))
    seen, vs = set(), []
    for x in v:
        if x["kind"] not in seen:
            seen.add(x["kind"])
            vs.append(x)
    return {"v": vs, "nt": [case] if len(set(model.predict(Xnew).tolist())) > 1 or len(set(pred_tr.tolist())) > 1 else [],
            "stats": {"evals": n_eval}, "out": [(name, tuple(model.predict(Xnew).tolist()))],
            "sample": {"estimator": name, "spec": SPECS[name][si], "subsets_and_permutations": 151 * 2}}


def explorers(tier, seed):
    seeds = [seed, seed + 1, seed + 2] if tier == "thorough" else [seed]
    cases = [(name, si, s) for name in M.INDUCTIVE for si in range(len(SPECS[name])) for s in seeds]
    cases += [(name, si, s, "square") for name in M.INDUCTIVE for si in range(len(SPECS[name])) for s in seeds]
    return [Explorer("subsets_and_permutations", "props.c18", "predict_case", cases, chunk=1, floor=10,
                     rule="15 inductive estimators x fitted states x ALL 31 non-empty subsets and ALL 120 permutations of 5 new points and of the 5 training "
                          "points (labels exact, probabilities 1e-12), copies/views/Fortran layouts, predict(train)==labels_; non-trivial = state predicting >=2 clusters")]
