"""
C19 - the printed KAURI tree is a faithful description of the fitted tree.
Engine E1: fitted trees of the C09 grid x feature-name lists of every length 0..d+1 x query lattice.  Oracle: a small
recursive-descent parser reads the printed text back into nested threshold rules; applying them must give predict.
"""
import contextlib
import io
import itertools
import re

import numpy as np

from mc.core import Explorer, violation
from oracles import kauri as ref
from props.c08 import make_data, row_multisets
from props.c09 import AXES, configs

ASSUMPTIONS = ["feature names in the menu contain no comparison operators; thresholds are printed with Python's shortest round-trip repr"]


class ParseError(Exception):
    pass


def parse(text):
    """Printed tree -> nested structure ('leaf', cluster) | ('node', feature_name, threshold, left, right)."""
    lines = [l for l in text.split("\n") if l.strip() != ""]
    pos = [0]

    def depth_and_body(line):
        d = 0
        while line.startswith("| "):
            line = line[2:]
            d += 1
        return d, line

    def node(depth):
        if pos[0] >= len(lines):
            raise ParseError("unexpected end")
        d, body = depth_and_body(lines[pos[0]])
        m = re.fullmatch(r"Node (\d+)", body.strip())
        if d != depth or not m:
            raise ParseError(f"expected 'Node' at depth {depth}: {lines[pos[0]]!r}")
        pos[0] += 1
        d, body = depth_and_body(lines[pos[0]])
        m = re.fullmatch(r"Cluster: (-?\d+)", body.strip())
        if m:
            if d != depth:
                raise ParseError(f"cluster line at wrong depth: {lines[pos[0]]!r}")
            pos[0] += 1
            return ("leaf", int(m.group(1)))
        m = re.fullmatch(r"\|=(.*) <= (\S+)", body)
        if d != depth or not m:
            raise ParseError(f"expected '<=' rule at depth {depth}: {lines[pos[0]]!r}")
        name, thr = m.group(1), float(m.group(2))
        pos[0] += 1
        left = node(depth + 1)
        d, body = depth_and_body(lines[pos[0]])
        m = re.fullmatch(r"\|=(.*) > (\S+)", body)
        if d != depth or not m or m.group(1) != name or float(m.group(2)) != thr:
            raise ParseError(f"expected matching '>' rule at depth {depth}: {lines[pos[0]]!r}")
        pos[0] += 1
        right = node(depth + 1)
        return ("node", name, thr, left, right)
    tree = node(0)
    if pos[0] != len(lines):
        raise ParseError("trailing lines")
    return tree


def apply_rules(rules, x, index_of):
    while rules[0] == "node":
        _, name, thr, left, right = rules
        rules = left if x[index_of(name)] <= thr else right
    return rules[1]


def names_used(rules, acc):
    if rules[0] == "node":
        acc.append(rules[1])
        names_used(rules[3], acc)
        names_used(rules[4], acc)
    return acc


def print_case(case):
    data_spec, cfg, seed = case
    from gemclus.tree import Kauri, print_kauri_tree
    offset = False
    if data_spec[0] == "offset":
        offset, data_spec = True, data_spec[1]
    X = make_data(data_spec, seed)
    if offset:
        X = X * 0.37 - 0.37          # negative, zero and fractional thresholds
    n, d = X.shape
    p = dict(cfg["explicit"]) if "explicit" in cfg else {a: AXES[a][i] for a, i in cfg.items()}
    mss, msl = p["split_leaf"]
    yk = None
    if p["kernel"] == "precomputed" and data_spec[0] in ("rows_ulp", "rows_huge"):
        # values that differ in the last bit / lie near the overflow limit: only a kernel given by the user grows a tree there
        B = np.random.RandomState(61_000 + n).normal(size=(n, n))
        yk = (B + B.T) / 2
    elif n < msl or p["kernel"] == "precomputed":
        return {"v": [], "stats": {"evals": 0}}
    if n < msl:
        return {"v": [], "stats": {"evals": 0}}
    kw_ = dict(max_clusters=p["max_clusters"], max_depth=p["max_depth"], min_samples_split=mss, min_samples_leaf=msl,
               max_features=p["max_features"], max_leaves=p["max_leaves"], kernel=p["kernel"], random_state=p["seed"])
    model = Kauri(**kw_) if p["seed"] == 0 else Kauri().set_params(**kw_)      # seed-axis deviation: hyperparameters arrive through set_params
    if n % 2 == 1:
        # history: the same object was fitted on other data (other width) and printed with names before
        Xo = np.random.RandomState(7).normal(size=(6, d + 2))
        with contextlib.redirect_stdout(io.StringIO()):
            try:
                print_kauri_tree(model.fit(Xo), ["n%d" % i for i in range(d + 2)])
            except Exception:  # noqa
                pass
    if n % 2 == 0 and n >= 2:
        # history: the same object was fitted on other data of the SAME shape (often a tree with the same number of nodes), used for
        # predictions and scored, then refitted: what is printed and what is predicted both describe the last fit
        Xo = X[::-1] * -1.0 + 0.25
        try:
            with contextlib.redirect_stdout(io.StringIO()):
                model.fit(Xo, None if yk is None else yk[::-1, ::-1].copy())
                model.predict(Xo)
                model.score(Xo, None if yk is None else yk[::-1, ::-1].copy())
                print_kauri_tree(model)
        except Exception:  # noqa
            pass
    model.fit(X, yk)
    if (n + d) % 2 == 0:
        # the fitted estimator after a pickle / deep-copy / cloudpickle round trip (returned by a worker, stored and reloaded) prints and predicts the same tree
        from mc import transport
        kind_ = transport.pick((data_spec, repr(cfg)))
        before_ = model.predict(X)
        model = transport.roundtrip(model, kind_)
        if not np.array_equal(model.predict(X), before_):
            return {"v": [violation("printed_rules_disagree_with_predict", {"after": kind_, "what": "the copy predicts differently from the original"},
                                    n=n, d=d, n_nodes=model.tree_.n_nodes, used_features=[])], "stats": {"evals": 1}}
    t = model.tree_
    used = sorted({f for f in t.features if f is not None})
    where = dict(n=n, d=d, n_nodes=t.n_nodes, used_features=used)
    v = []
    # query lattice
    grids = []
    for f in range(d):
        g = {X[:, f].min() - 1, X[:, f].max() + 1, 0.123}
        for i in range(t.n_nodes):
            if t.features[i] == f:
                th = t.thresholds[i]
                g.update([th, th - 1e-9, th + 1e-9, np.nextafter(th, -np.inf), np.nextafter(th, np.inf)])
        grids.append(sorted(g))
    Q = np.array(list(itertools.product(*grids)), dtype=float)
    if len(Q) > 3000:
        Q = Q[:: len(Q) // 3000 + 1]
    pred = model.predict(Q)
    name_menus = [None]
    base = ["alpha", "beta gamma", "f[2]", "delta"]
    for L in range(0, d + 2):
        name_menus.append(base[:L])
    name_menus.append(np.array(base[:d]))            # array-like
    n_eval = 0
    for names in name_menus:
        n_eval += 1
        buf = io.StringIO()
        err = None
        try:
            with contextlib.redirect_stdout(buf):
                print_kauri_tree(model, names) if names is not None else print_kauri_tree(model)
        except Exception as e:  # noqa
            err = e
        names_l = None if names is None else list(names)
        must_fail = names_l is not None and len(used) > 0 and (max(used) >= len(names_l))
        w = dict(where, names=None if names_l is None else len(names_l))
        if must_fail:
            if err is None:
                v.append(violation("too_few_feature_names_accepted", {"names": names_l, "used": used, "printed": buf.getvalue()}, **w))
            continue
        if err is not None:
            v.append(violation("valid_feature_names_rejected", {"names": names_l, "used": used, "error": repr(err)}, **w))
            continue
        text = buf.getvalue()
        try:
            rules = parse(text)
        except (ParseError, IndexError, ValueError) as e:
            v.append(violation("printed_tree_unparseable", {"text": text, "error": repr(e)}, **w))
            continue
        if names_l is None:
            def index_of(name):
                m = re.fullmatch(r"X\[:, (\d+)\]", name)
                if not m:
                    raise ParseError(f"default feature label expected, got {name!r}")
                return int(m.group(1))
        else:
            def index_of(name, names_l=names_l):
                return names_l.index(name)
        try:
            got = np.array([apply_rules(rules, q, index_of) for q in Q])
        except (ParseError, ValueError) as e:
            v.append(violation("printed_feature_label_wrong", {"text": text, "error": repr(e)}, **w))
            continue
        if not np.array_equal(got, pred):
            i = int(np.where(got != pred)[0][0])
            v.append(violation("printed_rules_disagree_with_predict", {"text": text, "point": Q[i], "rules_say": int(got[i]),
                                                                        "predict": int(pred[i])}, **w))
        printed_feats = sorted({index_of(nm) for nm in names_used(rules, [])})
        if printed_feats != used:
            v.append(violation("printed_features_are_not_the_used_features", {"text": text, "printed": printed_feats, "used": used}, **w))
    seen, vs = set(), []
    for x in v:
        if x["kind"] not in seen:
            seen.add(x["kind"])
            vs.append(x)
    return {"v": vs, "nt": [(data_spec, repr(sorted(cfg.items())))] if used else [],
            "out": [(max(t.depths), tuple(used), t.n_nodes)], "stats": {"evals": n_eval},
            "sample": {"data": data_spec, "params": {k: str(x) for k, x in p.items()}, "used_features": used, "n_nodes": t.n_nodes}}


def refusal_case(case):
    from gemclus.tree import Kauri, print_kauri_tree
    kind = case
    v = []
    objs = {"unfitted": lambda: Kauri(), "none": lambda: None, "string": lambda: "tree", "linear_model": None, "dict": lambda: {},
            "sklearn_tree": None, "tree_object": None}
    if kind == "linear_model":
        from gemclus.linear import LinearModel
        obj = LinearModel()
    elif kind == "sklearn_tree":
        from sklearn.tree import DecisionTreeClassifier
        obj = DecisionTreeClassifier().fit([[0], [1]], [0, 1])
    elif kind == "tree_object":
        obj = Kauri().fit(np.array([[0.0], [1.0], [2.0]])).tree_
    else:
        obj = objs[kind]()
    buf = io.StringIO()
    try:
        with contextlib.redirect_stdout(buf):
            print_kauri_tree(obj)
        v.append(violation("foreign_or_unfitted_object_printed", {"object": kind, "printed": buf.getvalue()}, object=kind))
    except Exception:
        pass
    return {"v": v, "nt": [kind], "stats": {"evals": 1}, "sample": {"object": kind}}


def explorers(tier, seed):
    thorough = tier == "thorough"
    datas = []
    for n in range(2, 6):
        datas += list(row_multisets(n, 1))
    for n in range(2, 5):
        ms = list(row_multisets(n, 2))
        datas += ms if (thorough or n < 4) else ms[::4]
    datas += [("generic", n, d) for n in (5, 6, 7) for d in (1, 2, 3)]
    datas += [("offset", sp) for sp in list(row_multisets(4, 1)) + list(row_multisets(3, 2))[::3]]
    cfgs = configs(2 if thorough else 1)
    cases = [(spec, c, seed) for spec in datas for c in cfgs]
    pre = {a: 0 for a in AXES}
    pre["kernel"] = AXES["kernel"].index("precomputed")
    for kind in ("rows_ulp", "rows_huge"):
        for _, rows in list(row_multisets(4, 1)) + list(row_multisets(5, 1)) + list(row_multisets(4, 2))[::5]:
            for mc in range(len(AXES["max_clusters"])):
                cases.append(((kind, rows), dict(pre, max_clusters=mc), seed))
    for n, d in [(80, 2), (300, 2), (600, 3)] + ([(1000, 2)] if thorough else []):
        for mc in (5, 8):
            for kern in ("linear", "rbf"):
                cases.append((("blobs", n, d), {"explicit": dict(max_clusters=mc, max_depth=None, split_leaf=(2, 1), max_features=None, max_leaves=None,
                                                                 kernel=kern, seed=0)}, seed))
    return [
        Explorer("print_parse_back", "props.c19", "print_case", cases, chunk=32, floor=300,
                 rule="fitted trees (C09 datasets x configurations with <=1 (quick) / <=2 (thorough) non-default parameters) x feature-name lists "
                      "None, every length 0..d+1, and an ndarray x query lattice (every threshold, +-1e-9, +-1 ulp, outside the range); plus multisets over adjacent "
                      "doubles / near the overflow limit (user kernel) and trees with dozens of leaves on 80..600 samples; non-trivial = tree "
                      "with at least one split; outcomes = distinct (depth, used features, nodes)"),
        Explorer("refusals", "props.c19", "refusal_case", ["unfitted", "none", "string", "linear_model", "dict", "sklearn_tree", "tree_object"],
                 chunk=1, floor=5, rule="unfitted Kauri and foreign objects must be refused"),
    ]
