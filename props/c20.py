"""
C20 - synthetic data generators follow their documented distributions.
The generators are deterministic functions of the answers of the random source.  A recording/scripted RandomState
owns that source (engine E3: ALL label vectors and ALL final permutations are scripted answers), so the property
splits into (1) the requests made to the RNG carry the documented parameters, (2) the output is the documented
assembly of the answers (row i is a draw of component y[i], no draw used twice), (3) numpy's samplers are trusted.
A seeded large-n moment check (6 sigma bands) is a backstop and the arbiter when the request pattern is not recognised.
"""
import itertools
import math

import numpy as np

from mc.core import Explorer, violation

LEVEL = "model_checking"
ASSUMPTIONS = [
    "numpy's samplers (normal, multivariate_normal, chisquare, choice, permutation) are trusted",
    "structural oracle assumes per-component requests to the random source; if the request pattern is not recognised the "
    "seeded moment check decides instead (so a distribution-preserving refactor is not flagged)",
    "celeux_two reference tables (intercepts, 2x9 matrix b, block-diagonal noise covariance, N((3.2,3.6,4),I3)) typed by hand from the documentation",
]


class Recorder(np.random.RandomState):
    """Records every request; `choice` and `permutation` answers can be scripted; sampler answers are real draws
    (each value therefore identifies the request and position it came from)."""

    def __init__(self, seed=0, labels=None, perm=None):
        super().__init__(seed)
        self.labels, self.perm = labels, perm
        self.log = []

    def choice(self, a, size=None, replace=True, p=None):
        if self.labels is not None:
            ans = np.array(self.labels, dtype=np.int64)
            assert np.shape(ans) == (tuple(size) if isinstance(size, (tuple, list)) else (size,)), "scripted labels have the wrong shape"
        else:
            ans = super().choice(a, size=size, replace=replace, p=p)
        self.log.append(("choice", {"a": a, "p": None if p is None else np.array(p, dtype=float), "size": size}, ans))
        return ans

    def normal(self, loc=0.0, scale=1.0, size=None):
        ans = super().normal(loc, scale, size)
        self.log.append(("normal", {"loc": np.array(loc, dtype=float), "scale": np.array(scale, dtype=float), "size": size}, ans))
        return ans

    def multivariate_normal(self, mean, cov, size=None, **kw):
        ans = super().multivariate_normal(mean, cov, size, **kw)
        self.log.append(("multivariate_normal", {"mean": np.array(mean, dtype=float), "cov": np.array(cov, dtype=float), "size": size}, ans))
        return ans

    def chisquare(self, df, size=None):
        ans = super().chisquare(df, size)
        self.log.append(("chisquare", {"df": df, "size": size}, ans))
        return ans

    def permutation(self, x):
        n = x if isinstance(x, (int, np.integer)) else len(x)
        ans = np.array(self.perm, dtype=np.int64) if self.perm is not None else super().permutation(n)
        self.log.append(("permutation", {"n": n}, ans))
        return ans


def _n(size):
    return size[0] if isinstance(size, (tuple, list)) else size


def _gmm_structure(log, X, y, loc, cov, pvals, n, where, tag="gmm"):
    """Check a draw_gmm block of the request log against the documented mixture. Returns (violations, recognised, n_used_log)."""
    v = []
    K, d = loc.shape
    if not log or log[0][0] != "choice":
        return v, False, 0
    _, req, ans = log[0]
    if req["a"] != K or req["p"] is None or not np.allclose(req["p"], pvals, rtol=1e-12) or _n(req["size"]) != n:
        v.append(violation("mixing_proportions_request_wrong", {"requested": req, "documented": pvals, "n": n}, part=tag, **where))
    if not np.array_equal(y, ans):
        v.append(violation("labels_are_not_the_drawn_components", {"returned": y, "drawn": ans}, part=tag, **where))
    kind = "normal" if d == 1 else "multivariate_normal"
    comps = log[1:1 + K]
    if len(comps) < K or any(c[0] != kind for c in comps):
        return v, False, 1
    draws = []
    for k, (_, rq, a) in enumerate(comps):
        if (d == 1 and np.size(rq["loc"]) != 1) or (d > 1 and (np.shape(rq["mean"]) != (d,) or np.shape(rq["cov"]) != (d, d))):
            return v, False, 1          # requests of another shape: pattern not recognised
        if d == 1:
            ok = np.allclose(rq["loc"].reshape(-1), loc[k], rtol=1e-12) and np.allclose(rq["scale"].reshape(-1), np.sqrt(cov[k].reshape(-1)), rtol=1e-12)
            doc = {"mean": loc[k], "std": np.sqrt(cov[k].reshape(-1))}
        else:
            ok = np.allclose(rq["mean"], loc[k], rtol=1e-12) and np.allclose(rq["cov"], cov[k], rtol=1e-12)
            doc = {"mean": loc[k], "cov": cov[k]}
        if not ok:
            v.append(violation("component_requested_with_wrong_parameters", {"component": k, "requested": rq, "documented": doc}, part=tag,
                               needs_moment_check=True, **where))
        draws.append(np.asarray(a, dtype=float).reshape(_n(rq["size"]), -1))
    # assembly: row i is an unused draw of component y[i]
    used = set()
    for i in range(n):
        k = int(y[i])
        hit = [j for j in range(len(draws[k])) if (k, j) not in used and np.array_equal(draws[k][j], X[i].reshape(-1))]
        if not hit:
            v.append(violation("sample_is_not_a_fresh_draw_of_its_component", {"i": i, "label": k, "row": X[i]}, part=tag, **where))
            break
        used.add((k, hit[0]))
    return v, True, 1 + K


def gmm_case(case):
    from gemclus.data import draw_gmm
    K, d, n, labels, pidx, seed = case
    rs0 = np.random.RandomState(90_000 + K * 10 + d)
    loc = rs0.normal(size=(K, d)) * 3
    if d == 1:
        cov = np.array([[0.25], [4.0], [9.0]])[:K]
    else:
        cov = np.array([(lambda B: B @ B.T + 0.3 * np.eye(d))(rs0.normal(size=(d, d))) for _ in range(K)])
    int_params = False
    if pidx == 2:            # all parameters written with integers (lists of ints): the samples are still real-valued Gaussians
        int_params, pidx = True, 0
        loc = np.round(loc).astype(int)
        cov = np.array([[4], [1], [9]])[:K] if d == 1 else np.array([np.diag(np.arange(1, d + 1) + k) for k in range(K)])
        loc, cov = loc.tolist(), cov.tolist()
    pvals = [np.ones(K) / K, np.array([0.5, 0.25, 0.25])[:K] if K == 3 else np.array([0.75, 0.25])][pidx]
    where = dict(fn="draw_gmm", K=K, d=d, n=n, int_params=int_params)
    rec = Recorder(seed, labels=labels)
    X, y = draw_gmm(n, loc, cov, pvals, rec)
    loc, cov = np.asarray(loc, dtype=float), np.asarray(cov, dtype=float)
    v = []
    if X.shape != (n, d) or y.shape != (n,):
        v.append(violation("wrong_shape", {"X": X.shape, "y": y.shape}, **where))
        return {"v": v}
    vv, recognised, _ = _gmm_structure(rec.log, X, y, loc, cov, pvals, n, where)
    v += vv
    return _finish(v, recognised, lambda: _moments_gmm(loc, cov, pvals, d, where), case,
                   {"fn": "draw_gmm", "K": K, "d": d, "n": n, "scripted_labels": labels, "requests": [r[0] for r in rec.log]})


def _finish(v, recognised, moment_fn, case, sample, traces=1):
    arb = [x for x in v if x["where"].get("needs_moment_check")]
    if moment_fn is not None and (not recognised or arb):
        mv = moment_fn()
        if not recognised:
            v = mv                                   # pattern not recognised: the moment check decides alone
        elif not mv:
            v = [x for x in v if not x["where"].get("needs_moment_check")]    # parameters look different but moments are right
        else:
            v = v + mv
    seen, vs = set(), []
    for x in v:
        if x["kind"] not in seen:
            seen.add(x["kind"])
            vs.append(x)
    return {"v": vs, "nt": [case], "stats": {"evals": 1, "traces": traces, "states": 1, "transitions": 1, "structure_recognised": int(recognised)},
            "sample": sample}


def _band(est, true, sd, n):
    return abs(est - true) <= 6 * sd / math.sqrt(n) + 1e-12


def _moments_gmm(loc, cov, pvals, d, where, n=20000, seed=123):
    from gemclus.data import draw_gmm
    X, y = draw_gmm(n, loc, cov, pvals, seed)
    v = []
    for k in range(len(loc)):
        m = y == k
        nk = int(m.sum())
        if not _band(nk / n, pvals[k], math.sqrt(pvals[k] * (1 - pvals[k])), n):
            v.append(violation("moments_mixing_proportion_off", {"component": k, "observed": nk / n, "documented": pvals[k]}, part="moments", **where))
        C = cov[k].reshape(1, 1) if d == 1 else cov[k]
        for j in range(d):
            if not _band(X[m, j].mean(), loc[k, j], math.sqrt(C[j, j]), nk):
                v.append(violation("moments_component_mean_off", {"component": k, "dim": j, "observed": X[m, j].mean(), "documented": loc[k, j]}, part="moments", **where))
            for l in range(d):
                est = np.mean((X[m, j] - loc[k, j]) * (X[m, l] - loc[k, l]))
                sd = math.sqrt(C[j, j] * C[l, l] + C[j, l] ** 2)
                if not _band(est, C[j, l], sd, nk):
                    v.append(violation("moments_component_covariance_off", {"component": k, "entry": [j, l], "observed": est, "documented": C[j, l]}, part="moments", **where))
    return v


def separated_case(case):
    """Distribution-free label consistency: components far apart and very tight, ALL scripted label vectors - every sample must lie next
    to the mean of the component named by its label, whatever way the implementation asks the random source."""
    fn, K, d, n, labels, seed = case
    from gemclus import data as Dm
    rec = Recorder(seed, labels=labels)
    where = dict(fn=fn, K=K, d=d, n=n)
    if fn == "draw_gmm":
        loc = np.array([[100.0 * (k + 1) * (1 if j % 2 == 0 else -1) for j in range(d)] for k in range(K)])
        cov = np.array([[1e-6 * (k + 1)] for k in range(K)]) if d == 1 else np.array([np.eye(d) * 1e-6 * (k + 1) for k in range(K)])
        X, y = Dm.draw_gmm(n, loc, cov, np.ones(K) / K, rec)
        centres, cols = loc, slice(0, d)
    else:
        mu = 200.0
        X, y = Dm.celeux_one(n, 2, mu, rec)
        centres, cols = np.array([np.ones(5) * mu, -np.ones(5) * mu, np.zeros(5)]), slice(0, 5)
    v = []
    if not np.array_equal(y, np.asarray(labels)):
        v.append(violation("labels_are_not_the_drawn_components", {"returned": y, "drawn": labels}, part="separated", **where))
    else:
        for i in range(n):
            tol_ = 0.1 if fn == "draw_gmm" else 10.0
            if np.abs(X[i, cols] - centres[int(y[i])]).max() > tol_:
                v.append(violation("sample_far_from_the_component_named_by_its_label", {"i": i, "label": int(y[i]), "sample": X[i, cols], "component_mean": centres[int(y[i])]},
                                   part="separated", **where))
                break
    return {"v": v, "nt": [case], "stats": {"evals": 1, "traces": 1, "states": 1, "transitions": 1}, "sample": {"fn": fn, "K": K, "d": d, "labels": labels}}


def moments_case(case):
    fn, K, d, seed = case
    rs0 = np.random.RandomState(90_000 + K * 10 + d)
    loc = rs0.normal(size=(K, d)) * 3
    if d == 1:
        cov = np.array([[0.25], [4.0], [9.0]])[:K]
    else:
        cov = np.array([(lambda B: B @ B.T + 0.3 * np.eye(d))(rs0.normal(size=(d, d))) for _ in range(K)])
    where = dict(fn=fn, K=K, d=d, n=20000)
    if fn == "draw_gmm":
        v = _moments_gmm(loc, cov, np.ones(K) / K, d, where, seed=1000 + seed)
    else:
        from gemclus.data import multivariate_student_t
        df = 10
        S = cov[0] if d > 1 else cov[0].reshape(1, 1)
        X = multivariate_student_t(20000, loc[0], S, df, 1000 + seed)
        v = []
        C = S * df / (df - 2)
        for j in range(d):
            if not _band(X[:, j].mean(), loc[0, j], math.sqrt(C[j, j]), 20000):
                v.append(violation("moments_student_mean_off", {"dim": j, "observed": X[:, j].mean(), "documented": loc[0, j]}, part="moments", **where))
            for l in range(d):
                est = np.mean((X[:, j] - loc[0, j]) * (X[:, l] - loc[0, l]))
                # fourth moments of a t10 are heavier: kurtosis factor 3(df-2)/(df-4) = 4 instead of 3
                sd = math.sqrt((C[j, j] * C[l, l] + C[j, l] ** 2) * 2)
                if not _band(est, C[j, l], sd, 20000):
                    v.append(violation("moments_student_covariance_off", {"entry": [j, l], "observed": est, "documented": C[j, l]}, part="moments", **where))
    return {"v": v, "nt": [case], "stats": {"evals": 1, "traces": 1, "states": 1, "transitions": 1}, "sample": {"fn": fn, "K": K, "d": d, "n": 20000}}


SCALE_KINDS = ["pair_dup", "rank1", "rank_dm1", "zero_var", "diag", "near_singular"]


def _scale(kind, d, t):
    rs = np.random.RandomState(92_000 + 10 * d + t)
    if kind == "pair_dup":            # two perfectly correlated variables
        S = np.eye(d)
        S[0, 1] = S[1, 0] = 1.0
    elif kind == "rank1":
        u = rs.normal(size=d)
        S = np.outer(u, u)
    elif kind == "rank_dm1":
        B = rs.normal(size=(d, d - 1))
        S = B @ B.T
    elif kind == "zero_var":          # a variable that does not vary at all
        S = np.diag(np.r_[0.0, rs.uniform(0.5, 3, size=d - 1)])
    elif kind == "diag":
        S = np.diag(rs.uniform(0.2, 4, size=d))
    else:
        B = rs.normal(size=(d, d - 1))
        S = B @ B.T + 1e-10 * np.eye(d)
    return S


def support_case(case):
    """Positive SEMI-definite (singular) and other structured scale / covariance matrices, which the documentation allows: every sample minus
    its mean lies in the column space of the matrix (distribution free), and the second moments match (seeded backstop)."""
    fn, d, kind, t, seed = case
    from gemclus.data import draw_gmm, multivariate_student_t
    S = _scale(kind, d, t)
    loc = np.random.RandomState(93_000 + d + t).normal(size=d) * 2
    where = dict(fn=fn, d=d, scale=kind)
    n = 20000
    if fn == "multivariate_student_t":
        df = 10
        X = multivariate_student_t(n, loc, S, df, 1000 + seed)
        R, factor, kurt = X - loc, df / (df - 2), 2.0
    else:
        loc2 = np.stack([loc, loc + 50.0])
        X, y = draw_gmm(n, loc2, np.stack([S, np.eye(d)]), np.array([0.5, 0.5]), 1000 + seed)
        R, factor, kurt = X[y == 0] - loc, 1.0, 1.0
    v = []
    if R.shape[1:] != (d,) or not np.all(np.isfinite(R)):
        return {"v": [violation("wrong_shape_or_non_finite", {"shape": R.shape}, **where)]}
    proj = S @ np.linalg.pinv(S, rcond=1e-8 if kind != "near_singular" else 1e-14)
    off = np.abs(R - R @ proj.T).max() if kind != "near_singular" else 0.0
    if off > 1e-6 * max(1.0, np.abs(R).max()):
        v.append(violation("samples_leave_the_support_of_the_documented_scale", {"scale": S, "largest_component_outside_the_column_space": off}, part="support", **where))
    m = len(R)
    C = S * factor
    for j in range(d):
        for l in range(d):
            est = np.mean(R[:, j] * R[:, l])
            sd = math.sqrt((C[j, j] * C[l, l] + C[j, l] ** 2) * kurt)
            if not abs(est - C[j, l]) <= 6 * sd / math.sqrt(m) + 1e-7:
                v.append(violation("moments_covariance_off_for_structured_scale", {"entry": [j, l], "observed": est, "documented": C[j, l], "scale": S}, part="moments", **where))
    return {"v": v[:3], "nt": [case], "stats": {"evals": 1, "traces": 1, "states": 1, "transitions": 1}, "sample": {"fn": fn, "d": d, "scale": kind}}


def student_case(case):
    from gemclus.data import multivariate_student_t
    d, n, df, seed = case
    rs0 = np.random.RandomState(91_000 + d)
    loc = rs0.normal(size=d) * 2
    B = rs0.normal(size=(d, d))
    S = B @ B.T + 0.2 * np.eye(d)
    where = dict(fn="multivariate_student_t", d=d, n=n, df=df)
    rec = Recorder(seed)
    X = multivariate_student_t(n, loc, S, df, rec)
    v = []
    if X.shape != (n, d):
        return {"v": [violation("wrong_shape", {"X": X.shape}, **where)]}
    names = [r[0] for r in rec.log]
    recognised = names == ["multivariate_normal", "chisquare"]
    if recognised:
        (_, rq, Z), (_, rq2, u) = rec.log
        if not (np.allclose(rq["mean"], 0) and np.allclose(rq["cov"], S, rtol=1e-12) and _n(rq["size"]) == n):
            v.append(violation("normal_part_requested_with_wrong_parameters", {"requested": rq, "documented_scale": S}, needs_moment_check=True, **where))
        if rq2["df"] != df or _n(rq2["size"]) != n:
            v.append(violation("chi_square_requested_with_wrong_parameters", {"requested": rq2, "df": df}, needs_moment_check=True, **where))
        exp = loc.reshape(1, -1) + np.sqrt(df / np.asarray(u).reshape(-1, 1)) * np.asarray(Z).reshape(n, d)
        if not np.allclose(X, exp, rtol=1e-12, atol=1e-12):
            v.append(violation("student_assembly_wrong", {"returned": X[:2], "loc_plus_sqrt_df_over_u_times_z": exp[:2]}, **where))

    def mom():
        return moments_case(("student", 2, d, 0))["v"]
    return _finish(v, recognised, mom if d > 1 else None, case, {"fn": "multivariate_student_t", "d": d, "n": n, "df": df, "requests": names})


def gstm_case(case):
    from gemclus.data import gstm
    n, alpha, df, labels, perm, seed = case
    ng = 3 * n // 4
    ns = n - ng
    where = dict(fn="gstm", n=n, alpha=alpha, df=df)
    rec = Recorder(seed, labels=labels, perm=perm)
    X, y = gstm(n, alpha, df, rec)
    v = []
    if X.shape != (n, 2) or np.shape(y) != (n,):
        return {"v": [violation("wrong_shape", {"X": X.shape, "y": np.shape(y)}, **where)]}
    corners = np.array([[1, 1], [1, -1], [-1, 1], [-1, -1]], dtype=float) * alpha
    names = [r[0] for r in rec.log]
    recognised = names == ["choice", "multivariate_normal", "multivariate_normal", "multivariate_normal", "multivariate_normal", "chisquare", "permutation"]
    if recognised:
        order = rec.log[-1][2]
        inv = np.empty(n, dtype=int)
        # undo the final joint permutation: X = Xfull[order]
        Xfull = np.empty_like(X)
        yfull = np.empty(n)
        Xfull[order] = X
        yfull[order] = y
        if sorted(order.tolist()) != list(range(n)):
            v.append(violation("final_shuffle_is_not_a_permutation", {"order": order}, **where))
        if not np.all(yfull[ng:] == 3):
            v.append(violation("student_samples_not_labelled_3_or_labels_shuffled_separately", {"labels_after_undoing_shuffle": yfull}, **where))
        vv, rec_g, used = _gmm_structure(rec.log, Xfull[:ng], yfull[:ng].astype(int), corners[:3], np.array([np.eye(2)] * 3), np.ones(3) / 3, ng, where, tag="gstm_gaussians")
        v += vv
        (_, rq, Z), (_, rq2, u) = rec.log[4], rec.log[5]
        if not (np.allclose(rq["mean"], 0) and np.allclose(rq["cov"], np.eye(2)) and rq2["df"] == df and _n(rq2["size"]) == ns):
            v.append(violation("student_part_requested_with_wrong_parameters", {"normal": rq, "chisquare": rq2}, needs_moment_check=False, **where))
        exp = corners[3].reshape(1, -1) + np.sqrt(df / np.asarray(u).reshape(-1, 1)) * np.asarray(Z).reshape(ns, 2)
        if not np.allclose(Xfull[ng:], exp, rtol=1e-12, atol=1e-12):
            v.append(violation("student_component_not_at_fourth_corner", {"returned": Xfull[ng:], "expected": exp}, **where))
        if ng != (3 * n) // 4:
            v.append(violation("gaussian_share_is_not_three_quarters", {"n_gaussian": ng}, **where))
    else:
        # unrecognised request pattern: fall back to coarse moments of the Gaussian part
        Xb, yb = gstm(4000, alpha, 5, 77)
        for k in range(3):
            m = yb == k
            if m.sum() < 500 or np.abs(Xb[m].mean(0) - corners[k]).max() > 6 / math.sqrt(m.sum()):
                v.append(violation("moments_gstm_component_mean_off", {"component": k, "observed": Xb[m].mean(0) if m.any() else None, "documented": corners[k]}, **where))
        if abs((yb == 3).mean() - 0.25) > 0.01:
            v.append(violation("moments_gstm_student_share_off", {"observed": float((yb == 3).mean())}, **where))
    return _finish(v, True, None, case, {"fn": "gstm", "n": n, "alpha": alpha, "df": df, "scripted_labels": labels, "scripted_permutation": perm,
                                               "requests": names})


B_TABLE = np.array([[0.5, 1], [2, 0], [0, 3], [-1, 2], [2, -4], [0.5, 0], [4, 0.5], [3, 0], [2, 1]], dtype=float).T      # 2 x 9
INTERCEPT = np.array([0, 0, 0.4, 0.8, 1.2, 1.6, 2.0, 2.4, 2.8])


def _omega():
    def rot(t):
        return np.array([[math.cos(t), -math.sin(t)], [math.sin(t), math.cos(t)]])
    O = np.zeros((9, 9))
    O[:3, :3] = np.eye(3)
    O[3:5, 3:5] = 0.5 * np.eye(2)
    O[5:7, 5:7] = rot(math.pi / 3).T @ np.diag([1.0, 3.0]) @ rot(math.pi / 3)
    O[7:9, 7:9] = rot(math.pi / 6).T @ np.diag([2.0, 6.0]) @ rot(math.pi / 6)
    return O


def celeux_case(case):
    which, n, p, mu, labels, seed = case
    from gemclus.data import celeux_one, celeux_two
    rec = Recorder(seed, labels=labels)
    v = []
    if which == "one":
        where = dict(fn="celeux_one", n=n, p=p, mu=mu)
        X, y = celeux_one(n, p, mu, rec)
        if X.shape != (n, 5 + p) or y.shape != (n,):
            return {"v": [violation("wrong_shape", {"X": X.shape}, **where)]}
        means = np.array([np.ones(5) * mu, -np.ones(5) * mu, np.zeros(5)])
        vv, recognised, used = _gmm_structure(rec.log, X[:, :5], y, means, np.array([np.eye(5)] * 3), np.ones(3) / 3, n, where, tag="informative")
        v += vv
        rest = rec.log[used:]
        if recognised and len(rest) == 1 and rest[0][0] == "normal":
            rq, a = rest[0][1], rest[0][2]
            if not (np.all(rq["loc"] == 0) and np.all(rq["scale"] == 1) and tuple(rq["size"]) == (n, p)):
                v.append(violation("noise_requested_with_wrong_parameters", {"requested": rq}, **where))
            if not np.array_equal(X[:, 5:], a):
                v.append(violation("noise_columns_are_not_the_standard_normal_draws", {}, **where))
        else:
            recognised = False
    else:
        where = dict(fn="celeux_two", n=n)
        X, y = celeux_two(n, rec)
        if X.shape != (n, 14) or y.shape != (n,):
            return {"v": [violation("wrong_shape", {"X": X.shape}, **where)]}
        means = np.array([[0, 0], [4, 0], [0, 2], [4, 2]], dtype=float)
        vv, recognised, used = _gmm_structure(rec.log, X[:, :2], y, means, np.array([np.eye(2)] * 4), np.ones(4) / 4, n, where, tag="informative")
        v += vv
        rest = rec.log[used:]
        if recognised and [r[0] for r in rest] == ["multivariate_normal", "multivariate_normal"]:
            (_, rq, noise), (_, rq2, tail) = rest
            if not (np.allclose(rq["mean"], 0) and np.allclose(rq["cov"], _omega(), rtol=1e-12, atol=1e-12)):
                v.append(violation("noise_covariance_is_not_the_documented_block_diagonal", {"requested": rq["cov"], "documented": _omega()}, **where))
            if not (np.allclose(rq2["mean"], [3.2, 3.6, 4]) and np.allclose(rq2["cov"], np.eye(3))):
                v.append(violation("independent_columns_requested_with_wrong_parameters", {"requested": rq2}, **where))
            exp = INTERCEPT + X[:, :2] @ B_TABLE + np.asarray(noise).reshape(n, 9)
            if not np.allclose(X[:, 2:11], exp, rtol=1e-12, atol=1e-12):
                v.append(violation("linear_dependencies_on_informative_variables_wrong", {"returned": X[:1, 2:11], "expected": exp[:1]}, **where))
            if not np.array_equal(X[:, 11:], np.asarray(tail).reshape(n, 3)):
                v.append(violation("independent_columns_are_not_their_draws", {}, **where))
        else:
            recognised = False
    if not recognised:
        v = [x for x in v if x["kind"] == "wrong_shape"]          # no structural verdict; shapes/labels still hold
    return _finish(v, True, None, case, {"fn": where["fn"], "n": n, "scripted_labels": labels, "requests": [r[0] for r in rec.log]})


def misc_case(case):
    """Shapes/labels with the real RNG, identical output for identical integer seeds, rejection of non-mixtures."""
    kind, arg = case
    from gemclus import data as D
    v = []
    if kind == "seeds":
        fn, args = arg
        f = getattr(D, fn)
        a, b, c = f(*args, random_state=5), f(*args, random_state=5), f(*args, random_state=6)
        flat = lambda r: np.concatenate([np.ravel(x) for x in (r if isinstance(r, tuple) else (r,))])
        if not np.array_equal(flat(a), flat(b)):
            v.append(violation("same_seed_different_output", {"fn": fn, "args": args}, fn=fn))
        # the returned arrays belong to the caller (a pipeline may standardise them in place, a loop may regenerate the data set for every
        # candidate; numpy-integer seeds are what such loops produce): the next identical call still returns the documented draw
        keep = flat(a).copy()
        a_returned = a
        a = tuple(np.array(x, copy=True) for x in a) if isinstance(a, tuple) else np.array(a, copy=True)       # pristine copy for the checks below
        for arr in (a_returned if isinstance(a_returned, tuple) else (a_returned,)):
            arr *= 0
            arr -= 7
        for sd in (5, np.int64(5), np.int32(5)):
            if not np.array_equal(flat(f(*args, random_state=sd)), keep):
                v.append(violation("same_seed_different_output", {"fn": fn, "args": args, "history": "the arrays returned by the first call were modified in place",
                                                                  "seed_type": type(sd).__name__}, fn=fn))
                break
        if np.array_equal(flat(a), flat(c)):
            v.append(violation("different_seeds_same_output", {"fn": fn, "args": args}, fn=fn))
        out = a if isinstance(a, tuple) else (a, None)
        if out[1] is not None:
            y = np.asarray(out[1])
            K = {"gstm": 4, "celeux_one": 3, "celeux_two": 4}.get(fn, len(args[1]) if fn == "draw_gmm" else None)
            if y.shape != (out[0].shape[0],) or y.min() < 0 or y.max() >= K or not np.all(y == np.round(y)):
                v.append(violation("labels_out_of_range", {"fn": fn, "labels": y[:10]}, fn=fn))
        n_expected = args[0]
        if out[0].shape[0] != n_expected:
            v.append(violation("wrong_shape", {"fn": fn, "shape": out[0].shape}, fn=fn))
    elif kind == "defaults":
        from mc.defaults import documented_defaults
        fn, given = arg
        f = getattr(D, fn)
        doc = {k_: v_ for k_, v_ in documented_defaults(f).items() if k_ != "random_state"}
        flat = lambda r: np.concatenate([np.ravel(x) for x in (r if isinstance(r, tuple) else (r,))])
        for drop in [k_ for k_ in doc if k_ not in given]:
            kwargs_full = dict(doc, **given)
            kwargs_short = {k_: v_ for k_, v_ in kwargs_full.items() if k_ != drop}
            a, b = f(**kwargs_short, random_state=11), f(**kwargs_full, random_state=11)
            if flat(a).shape != flat(b).shape or not np.array_equal(flat(a), flat(b)):
                v.append(violation("default_differs_from_the_documented_value", {"fn": fn, "omitted": drop, "documented_default": doc[drop]}, fn=fn, argument=drop))
    else:
        tag, loc, scale, pv = arg
        try:
            D.draw_gmm(5, loc, scale, pv, 0)
            v.append(violation("non_mixture_parameters_accepted", {"what": tag, "loc": loc, "scale": scale, "pvals": pv}, what=tag))
        except (ValueError, TypeError):
            pass
    return {"v": v, "nt": [repr(case)[:200]], "stats": {"evals": 1, "traces": 1, "states": 1, "transitions": 1}, "sample": {"case": repr(case)[:300]}}


I2 = [[1.0, 0.0], [0.0, 1.0]]
REJECT = [
    ("means_vs_covariances_length", [[0, 0], [1, 1]], [I2, I2, I2], [0.5, 0.5]),
    ("means_vs_proportions_length", [[0, 0], [1, 1]], [I2, I2], [0.5, 0.25, 0.25]),
    ("zero_proportion", [[0, 0], [1, 1]], [I2, I2], [1.0, 0.0]),
    ("negative_proportion", [[0, 0], [1, 1], [2, 2]], [I2, I2, I2], [0.75, 0.75, -0.5]),
    ("proportions_sum_below_one", [[0, 0], [1, 1]], [I2, I2], [0.5, 0.25]),
    ("proportions_sum_above_one", [[0, 0], [1, 1]], [I2, I2], [0.75, 0.75]),
    ("covariance_not_psd", [[0, 0], [1, 1]], [I2, [[1.0, 2.0], [2.0, 1.0]]], [0.5, 0.5]),
    ("covariance_negative_definite", [[0, 0], [1, 1]], [I2, [[-1.0, 0.0], [0.0, -1.0]]], [0.5, 0.5]),
    ("covariance_slightly_indefinite", [[0, 0], [1, 1]], [I2, [[1.0, 0.0], [0.0, -1e-3]]], [0.5, 0.5]),
    ("covariance_slightly_indefinite_large_units", [[0, 0], [1, 1]], [I2, [[1e6, 0.0], [0.0, -1.0]]], [0.5, 0.5]),
    ("covariance_not_psd_next_to_a_component_in_large_units", [[0, 0], [1, 1]], [[[4e8, 0.0], [0.0, 9e8]], [[1.0, 1.5], [1.5, 1.0]]], [0.5, 0.5]),
    ("covariance_negative_definite_before_a_component_in_large_units", [[0, 0], [1, 1], [2, 2]], [[[-1.0, 0.0], [0.0, -1.0]], I2, [[1e12, 0.0], [0.0, 1e12]]], [0.5, 0.25, 0.25]),
    ("zero_covariance", [[0, 0], [1, 1]], [I2, [[0.0, 0.0], [0.0, 0.0]]], [0.5, 0.5]),
    ("covariance_not_square", [[0, 0], [1, 1]], [[[1.0, 0.0, 0.0], [0.0, 1.0, 0.0]]] * 2, [0.5, 0.5]),
    ("negative_variance_1d", [[0.0], [1.0]], [[1.0], [-1.0]], [0.5, 0.5]),
    ("zero_variance_1d", [[0.0], [1.0]], [[1.0], [0.0]], [0.5, 0.5]),
    ("single_component", [[0, 0]], [I2], [1.0]),
]


def explorers(tier, seed):
    thorough = tier == "thorough"
    c1 = []
    for K in (2, 3):
        for d in (1, 2, 3):
            for n in ((1, 2, 3, 4, 5) if thorough else (1, 2, 3, 4)):
                for labels in itertools.product(range(K), repeat=n):
                    for pidx in ((0, 1, 2) if n <= 3 else (0,)):
                        c1.append((K, d, n, list(labels), pidx, seed))
    c2 = [(d, n, df, seed) for d in (1, 2, 3) for n in (1, 2, 5) for df in (1, 2.5, 10)]
    c3 = []
    for labels in itertools.product(range(3), repeat=3):
        for n in (4, 5):
            for perm in itertools.permutations(range(n)):
                for (alpha, df) in (((2.0, 1),) if n == 5 and not thorough else ((2.0, 1), (0.5, 3.5))):
                    c3.append((n, alpha, df, list(labels), list(perm), seed))
    c4 = []
    for n in (1, 2, 3, 4):
        for labels in itertools.product(range(3), repeat=n):
            for (p, mu) in ((1, 1.7), (3, 0.4)):
                c4.append(("one", n, p, mu, list(labels), seed))
    for n in (1, 2, 3):
        for labels in itertools.product(range(4), repeat=n):
            c4.append(("two", n, None, None, list(labels), seed))
    mean3 = [[0.0, 0.0], [3.0, 1.0], [-2.0, 2.0]]
    c5 = [("seeds", ("draw_gmm", (7, mean3, [I2, I2, I2], [0.5, 0.25, 0.25]))), ("seeds", ("draw_gmm", (6, [[0.0], [2.0]], [[1.0], [4.0]], [0.5, 0.5]))),
          ("seeds", ("multivariate_student_t", (6, [0.0, 1.0], I2, 3))), ("seeds", ("gstm", (9, 2, 1))), ("seeds", ("gstm", (4, 1.5, 2.5))),
          ("seeds", ("celeux_one", (6, 2, 1.7))), ("seeds", ("celeux_two", (5,))), ("seeds", ("celeux_one", (1, 1, 0.3))), ("seeds", ("celeux_two", (1,)))] + \
         [("reject", r) for r in REJECT] + \
         [("defaults", ("gstm", {"n": 40})), ("defaults", ("gstm", {})), ("defaults", ("celeux_one", {"n": 30})), ("defaults", ("celeux_one", {})), ("defaults", ("celeux_two", {})),
          ("defaults", ("multivariate_student_t", {"n": 20, "loc": [0.0, 1.0], "scale": I2}))]
    c7 = [("draw_gmm", K, d, n, list(lab), seed) for K in (2, 3, 4) for d in (1, 2) for n in (1, 2, 3, 4) for lab in itertools.product(range(K), repeat=n) if K ** n <= 300] + \
         [("celeux_one", 3, 5, n, list(lab), seed) for n in (1, 2, 3, 4) for lab in itertools.product(range(3), repeat=n)]
    c6 = [("draw_gmm", K, d, seed) for K in (2, 3) for d in (1, 2)] + [("student", 2, d, seed) for d in (2, 3)]
    c8 = [(fn, d, kind, t, seed) for fn in ("multivariate_student_t", "draw_gmm") for d in (2, 3, 4) for kind in SCALE_KINDS for t in range(3 if thorough else 2)]
    return [
        Explorer("structured_and_singular_scales", "props.c20", "support_case", c8, chunk=4, floor=20, exhaustive=False,
                 rule="multivariate_student_t and draw_gmm with positive SEMI-definite and structured scale matrices (two perfectly correlated variables, rank one, "
                      "rank d-1, a zero-variance variable, diagonal, nearly singular) for d in {2,3,4}: every sample minus its mean lies in the column space of "
                      "the matrix (distribution-free, all 20000 samples) and the second moments match df/(df-2)*scale within a 6-sigma band (seeded backstop)"),
        Explorer("draw_gmm_all_label_vectors", "props.c20", "gmm_case", c1, kind="choices", chunk=64, floor=100,
                 rule="draw_gmm for K in {2,3}, d in {1,2,3}, ALL scripted label vectors y in {0..K-1}^n (n<=4 quick / 5 thorough), two proportion "
                      "vectors: requests carry the documented means/covariances (std = sqrt(variance) for d=1), labels are the drawn components, "
                      "row i is a fresh draw of component y[i]"),
        Explorer("student_t", "props.c20", "student_case", c2, kind="choices", chunk=8, floor=10,
                 rule="multivariate_student_t for d in {1,2,3}, n in {1,2,5}, df in {1,2.5,10}: X = loc + sqrt(df/u) z with the documented requests"),
        Explorer("gstm_all_labels_and_permutations", "props.c20", "gstm_case", c3, kind="choices", chunk=64, floor=100,
                 rule="gstm for n in {4,5}: ALL label vectors of the Gaussian part x ALL n! final permutations (scripted answers): 3/4 Gaussian on three "
                      "corners alpha*(+-1,+-1), Student-t on the fourth labelled 3, X and y shuffled jointly"),
        Explorer("celeux", "props.c20", "celeux_case", c4, kind="choices", chunk=32, floor=50,
                 rule="celeux_one (n<=4, all 3^n label vectors, two (p,mu)) and celeux_two (n<=3, all 4^n label vectors): informative mixture, noise "
                      "requests, intercepts/b-matrix/noise covariance tables, independent N((3.2,3.6,4),I) columns"),
        Explorer("seeds_shapes_rejections", "props.c20", "misc_case", c5, chunk=4, floor=10,
                 rule="identical output for identical integer seeds, shapes, label ranges; rejection menu of parameter sets that do not describe a mixture"),
        Explorer("separated_components_all_label_vectors", "props.c20", "separated_case", c7, kind="choices", chunk=64, floor=100,
                 rule="draw_gmm (K<=4, d<=2, n<=4) and celeux_one with far-apart, tight components and ALL scripted label vectors (empty components included): "
                      "each sample lies next to the mean of the component its label names - independent of how the random source is asked"),
        Explorer("moment_backstop", "props.c20", "moments_case", c6, chunk=1, floor=4, exhaustive=False,
                 rule="seeded n=20000 moment check with 6-sigma bands (backstop only; also the arbiter when the request pattern is not recognised)"),
    ]
