#!/bin/bash
# Runs the repository's baseline command and reports whether every stable-pass test of BASELINE.json still passes.
OUT=${1:-/tmp/baseline_run.xml}
cd /repo && /venv/bin/python -m pytest -ra -q -p no:cacheprovider --timeout=900 --continue-on-collection-errors --junitxml=$OUT >/tmp/baseline_run.log 2>&1
tail -1 /tmp/baseline_run.log
python3 - "$OUT" <<'PY'
import json, sys, xml.etree.ElementTree as ET
base = set(json.load(open('/root/.vp/BASELINE.json'))['stable_pass'])
passed = set()
for tc in ET.parse(sys.argv[1]).getroot().iter('testcase'):
    if not any(c.tag in ('failure', 'error', 'skipped') for c in tc):
        passed.add(f"{tc.get('classname')}::{tc.get('name')}")
missing = sorted(base - passed)
print(f"stable_pass={len(base)} still_passing={len(base & passed)} missing={len(missing)} total_passed={len(passed)}")
for m in missing[:20]: print("  MISSING", m)
sys.exit(1 if missing else 0)
PY
