#!/bin/bash
# usage: tools/confirm_seed.sh <seed-name> <out-dir-of-agent>   e.g. confirm_seed.sh C08-a /tmp/out_C08
# Confirms an independently written property-breaking change in a fresh scratch worktree:
#   patch applies, demo passes without / fails with the change, the repository's own tests that pass at HEAD still pass with it.
NAME=$1; SRC=$2
WT=/tmp/cf_$NAME
DST=/verif/seeded/$NAME
mkdir -p $DST
cp $SRC/patch.diff $SRC/demo.py $DST/ 2>/dev/null
cp $SRC/meta.json $DST/agent_meta.json 2>/dev/null
git -C /repo worktree remove --force $WT 2>/dev/null; rm -rf $WT
git -C /repo worktree add -q --detach $WT HEAD || exit 9
cp /repo/gemclus/tree/_utils.cpython-312-x86_64-linux-gnu.so $WT/gemclus/tree/
cd $WT
/venv/bin/python $DST/demo.py > $DST/demo_clean.log 2>&1; RC_CLEAN=$?
if ! git apply --check $DST/patch.diff 2>/tmp/apply_$NAME.err; then
  echo "$NAME: PATCH DOES NOT APPLY: $(head -2 /tmp/apply_$NAME.err)"; git -C /repo worktree remove --force $WT; exit 3
fi
git apply $DST/patch.diff
/venv/bin/python $DST/demo.py > $DST/demo_patched.log 2>&1; RC_PATCHED=$?
OMP_NUM_THREADS=1 OPENBLAS_NUM_THREADS=1 /venv/bin/python -m pytest -q -p no:cacheprovider --timeout=900 --continue-on-collection-errors --junitxml=/tmp/cf_$NAME.xml > /tmp/cf_$NAME.pytest.log 2>&1
python3 - $NAME $RC_CLEAN $RC_PATCHED <<'PY'
import json, sys, xml.etree.ElementTree as ET
name, rc_clean, rc_patched = sys.argv[1], int(sys.argv[2]), int(sys.argv[3])
def passed(path):
    out = set()
    for tc in ET.parse(path).getroot().iter('testcase'):
        if not any(c.tag in ('failure', 'error', 'skipped') for c in tc):
            out.add(f"{tc.get('classname')}::{tc.get('name')}")
    return out
base = set(json.load(open('/root/.vp/BASELINE.json'))['stable_pass'])
head = passed('/tmp/baseline_head.xml')
now = passed(f'/tmp/cf_{name}.xml')
res = {"seed": name, "demo_exit_on_clean_tree": rc_clean, "demo_exit_with_change": rc_patched,
       "stable_baseline_tests": len(base), "stable_baseline_still_passing": len(base & now),
       "tests_passing_at_head": len(head), "of_those_still_passing": len(head & now),
       "newly_failing": sorted((head | base) - now)[:10]}
res["confirmed"] = bool(rc_clean == 0 and rc_patched != 0 and not res["newly_failing"])
json.dump(res, open(f'/verif/seeded/{name}/confirm.json', 'w'), indent=1)
print(name, json.dumps(res))
PY
cd /; git -C /repo worktree remove --force $WT
rm -f /tmp/cf_$NAME.xml /tmp/cf_$NAME.pytest.log
