#!/usr/bin/env python3
"""Prints (markdown) the explorers of every property as built: name, engine kind, number of cases per tier, enumeration rule.
usage: /venv/bin/python tools/explorer_table.py > /tmp/table.md   (run from /verif; imports the props modules, not the library)"""
import importlib
import os
import sys

sys.path.insert(0, os.path.dirname(os.path.dirname(os.path.abspath(__file__))))
sys.path.insert(0, os.environ.get("VERIF_REPO", "/repo"))
props = {}
for i in range(1, 21):
    pid = f"C{i:02d}"
    mod = importlib.import_module(f"props.c{i:02d}")
    q = {e.name: e for e in mod.explorers("quick", 0)}
    t = {e.name: e for e in mod.explorers("thorough", 0)}
    print(f"\n**{pid}**\n")
    print("| explorer | engine | cases quick / thorough | what is enumerated and judged |")
    print("|---|---|---|---|")
    for name, e in q.items():
        rule = " ".join(str(e.rule).split()).replace("|", "/")
        print(f"| `{name}` | {e.kind} | {len(e.cases)} / {len(t[name].cases) if name in t else '-'} | {rule} |")
