"""Regenerates MANIFEST.json from the table below (kept in one place so it is always schema-valid)."""
import json, os
HERE = os.path.dirname(os.path.dirname(os.path.abspath(__file__)))

CHECKS = {
 # id: (level, technique, text, note, design_ref)
 "C05": ("exploration",
         "bounded-exhaustive enumeration of weight rows/groups/thresholds on the real operators vs closed-form reference",
         "All skip/hidden weight rows over a dyadic menu (ties, zero rows), all alpha/M of a menu, all set partitions of <=4 features, plus seed-generic reals, are pushed through the real proximal operators; each result is compared with an independent reference minimiser (exact zeros, feasibility, objective value). Complete inside the stated bound.",
         "Trusts numpy arithmetic and the reference derivation in oracles/prox.py; real values outside the menus are not explored.",
         "5/C05"),
}
CHECKS["C01"] = ("exploration",
    "bounded-exhaustive enumeration of prediction matrices x affinity menu x every way of obtaining a GEMINI, vs textbook reference (LP for Wasserstein)",
    "Every n-tuple of prediction rows from an interior-simplex menu (lattice, near one-hot, near uniform) for small (K,n), crossed with a menu of named kernels/metrics with parameters, callables and precomputed (PSD and indefinite) matrices, is scored through the 13 registry names, the 6 classes with both ovo flags, MI, and DiscriminativeModel.score on a stub model; each value is compared with the definition computed independently (explicit sums over atoms, transport LP). Complete inside the stated bound; a wrong constant, swapped OvA/OvO branch, dropped weight or mis-mapped name is caught on the first non-trivial matrix. Also: memory layouts of the arguments, integer-typed and 1e-10..1e8-magnitude matrices, and call histories on one GEMINI object (in-place edits of affinity / predictions / data between evaluations, long-lived objects reused across matrices and shapes) compared with the reference and with fresh objects.",
    "Trusts scikit-learn's pairwise functions as the meaning of kernel/metric names and scipy HiGHS for the reference LP (bracketed by primal/dual bounds); real-valued inputs outside the menus are not explored.",
    "5/C01")
CHECKS["C02"] = ("exploration",
    "bounded-exhaustive enumeration of (GEMINI, ovo, affinity, shape, logit scale, logit table) with two-step finite-difference oracle on the real evaluate()",
    "For every class/ovo flag, every shape n<=5(7) x K<=4(5), five logit scales from soft to saturated, the affinity menu, seed-generic logit tables and ALL tuples of perturbed interior-lattice rows (to sweep TV sign patterns and OT bases), the returned gradient is pushed through the softmax chain rule and compared with central differences of the returned score (steps h and h/8 must agree for the point to count as differentiable), and along every simplex tangent e_a-e_b; plus score equality with/without return_grad, gradient shape and exact zeros on clipped entries. Non-default clipping precisions (partly clipped columns) and re-asking the used object after all its evaluations are included.",
    "Finite differences at two step sizes decide differentiability; kink points and MMD points whose distance is below floating-point resolution only get the finiteness/shape/clip checks. Values are seed-generic, structure is complete inside the bound.",
    "5/C02")
CHECKS["C13"] = ("exploration",
    "bounded-exhaustive enumeration of closed-simplex lattice matrices x all sample/cluster permutations x affinity menu on the real GEMINIs",
    "All prediction matrices with rows in closed-simplex lattices (one-hot rows included) for small (K,n), under ALL sample permutations (with affinity rows/columns) and ALL cluster permutations, with an appended empty cluster, are scored by all 13 class/flag targets; invariance, zero gradient of the empty cluster, lower bounds, vanishing for sample-independent predictions, TV/Hellinger <= 1, MI(balanced partition)=log K and finiteness of scores and gradients are asserted on every one; gradient equivariance at seed-generic interior points under all permutation pairs.",
    "Lattice denominators 2 and 4; gradient equivariance only where gradients are unique (generic points), compared in the simplex tangent space.",
    "5/C13")
CHECKS["C03"] = ("exploration",
    "bounded-exhaustive enumeration of training configurations with a history monitor on every optimiser step of the real fit (optimiser/batch seams) vs finite-difference reference of the regularised batch objective",
    "Model family x GEMINI x solver x batch size x {plain, must-link/cannot-link decorated} x datasets are fitted for real; the wrapped BaseOptimizer.update_params sees, at EVERY step of EVERY epoch, the live weights and the direction handed over, which must equal the negative gradient of GEMINI(batch predictions) minus the documented penalty, block by block (reference: real GEMINI gradient chained with two-step central differences of the model's own forward pass, analytic penalty, C14 reference constraint term). Sparse families are also trained through path(); one-feature and 3-cut Douglas variants, hub-shaped constraint lists and a monitored fit after an earlier fit are included.",
    "GEMINI gradient exactness is delegated to C02; tiny models; parameters on a ReLU kink are skipped and counted.",
    "5/C03")
CHECKS["C10"] = ("model_checking",
    "stateless exploration of environment answers (all n! answers of RandomState.permutation, deviation-bounded) on real fits/paths with a batch/optimiser monitor",
    "The only nondeterminism of batching (RandomState.permutation) is owned by the harness: every batched model x n<=7 x every batch size 1..n+2/None x affinity {none, computed, user-supplied with unique entries} x {plain, decorated} is fitted for real with default answers (bound 0), with EVERY permutation as the first epoch's answer for n<=4(5) (bound 1) and every pair of answers for two epochs for n<=3 (bound 2); on every epoch the yielded batches must partition the data, respect batch_size, carry exactly A[idx][:,idx], match the decoration's recorded indices, and the optimiser must be stepped max_iter*ceil(n/bs) times; path() validation sweeps must visit consecutive diagonal blocks. Refits of the same (decorated) instance on other sizes, the decoration's indices at the moment the optimiser is stepped, and 'one permutation per epoch drawn from the estimator's generator' are checked too.",
    "Every explored trace is an execution of the implementation (no separate model); rows are identified by value (distinct rows).",
    "5/C10")
CHECKS["C14"] = ("model_checking",
    "exhaustive enumeration of all must-link/cannot-link pair sets over 4 indices vs union-find; stateless exploration of all first-epoch permutations on decorated fits vs reference constraint term",
    "Validation: all 2^6 x 2^6 (must-link, cannot-link) pair sets over three index sets (contiguous, non-contiguous, unordered), two container types, mixed orientations, self pairs and malformed inputs, against a union-find oracle. Training: decorated models x factors x batch sizes x ALL 120 first-epoch permutation answers; in every batch of every epoch the gradient entering back-propagation must equal the real GEMINI gradient plus +-factor*(p_i-p_j) on exactly the rows that hold the constrained samples.",
    "4 indices per index set; n=5 for training; ambiguous inputs (3-column arrays, float indices) excluded.",
    "5/C14")
CHECKS["C08"] = ("model_checking",
    "explicit-state BFS over KAURI tree states with the real compiled find_best_split called in every state vs brute-force oracle; plus real Kauri.fit runs with a spy on find_best_split",
    "States (Z,Y,n_leaves,n_clusters) are explored breadth-first from the root under ANY admissible split and assignment (a superset of the greedy loop), raw arrays as key; in every state the real find_best_split is called on all leaves, each single leaf, each single feature, with double-star disabled, and under a fan-out of indefinite kernels; claimed gain must equal the recomputed objective increase and no admissible alternative may beat it. Hand-seeded >=4-cluster states and greedy Kauri.fit runs (every call checked, bookkeeping state compared with the reference update rule, final score = root + gains) complete it. Two genuine defects of the Cython source are listed as known findings (Cython is not installed: a source fix cannot be built here).",
    "Compiled extension of the working tree is what is checked; state search capped per root (cap and roots that hit it are reported).",
    "5/C08")
CHECKS["C09"] = ("exploration",
    "bounded-exhaustive enumeration of datasets (all row multisets over a lattice) x deviation-bounded tree-limit configurations on the real Kauri.fit vs reference routing",
    "All multisets of rows over {0,1,2}^d (ties, duplicates, constant features) for small n, offset and seed-generic variants, are fitted with every configuration having <=2 non-default parameters over 7 axes (full product on a subset in thorough); the fitted tree arrays are re-routed by an independent reference: leaf/depth/cluster limits, min_samples_leaf, min_samples_split (root included), observed thresholds, one cluster per leaf, 2*leaves-1 nodes, predict==labels_, region lookup on a query lattice around every threshold, score==objective(predict).",
    "Bounded to n<=7, d<=3; kernel names mean scikit-learn's pairwise_kernels.",
    "5/C09")
CHECKS["C19"] = ("exploration",
    "bounded-exhaustive enumeration of fitted trees x feature-name lists x query lattice; printed text parsed back by an independent recursive-descent parser",
    "Every fitted tree of the C09 dataset/configuration grid is printed with no names, with name lists of every length 0..d+1 and as ndarray; the text is parsed back into nested threshold rules which must assign every point of a query lattice the cluster predict gives, name each used feature correctly, and lists that cannot name a used feature, unfitted models and foreign objects must be refused.",
    "Feature names without comparison operators; thresholds round-trip through Python float repr.",
    "5/C19")
CHECKS["C07"] = ("model_checking",
    "stateless deviation-bounded exploration of environment answers (score level, dying features per epoch) driving the real path controller; plus real-model paths observed through compute_val_score; contract reference on observations",
    "The real _path/path code (stopping, histories, best-weights bookkeeping, restore) is driven on subclasses of the real sparse estimators whose numerics are scripted: every epoch consumes one environment answer; ALL scripts with a bounded total number of deviations (configuration arguments incl. out-of-range values + non-default answers among the first 8 epochs) are executed and judged by a reference of the documented contract (equal-length histories, alpha growth, recorded counts/penalties, stopping at min_features unless NaN, best weights = last step within keep_threshold of the best all-features score, restore iff requested and not dynamic, warnings for replaced arguments, termination). The same reference judges real path() runs of the 5 sparse estimators over a configuration grid.",
    "The early-stopping rule inside a step is observed, not predicted (only the documented bounds on epochs per step are asserted).",
    "5/C07")
CHECKS["C06"] = ("exploration",
    "bounded-exhaustive enumeration of sparse configurations (all set partitions of the features as groups) with a monitor on every optimiser step and every path observation point of the real estimators",
    "5 sparse estimators x GEMINIs x alpha x M x {no groups, ALL 15 set partitions of 4 features, partial lists} x batch size x dynamic x {fit, path}: after every optimiser step the weights left by _update_weights must be a minimiser of the C05 reference problem with threshold alpha*optimiser.learning_rate applied to the post-step snapshot (other blocks untouched); after fit, at every validation call of the path and after restoration get_selection must equal the exactly-non-zero rows, unselected features must be bitwise inert under perturbation (and have zero first-layer rows), groups must be all-in/all-out and groups_ the declared list completed by singletons.",
    "d=4, n=8; the dynamic empty-selection crash (KF-C07-1) is skipped here and reported by C07.",
    "5/C06")
CHECKS["C20"] = ("model_checking",
    "stateless exploration of the random source's answers (all label vectors, all final permutations scripted) on the real generators with a recording RandomState; reference = documented parameter tables and assembly",
    "A recording/scripted RandomState owns the random source of draw_gmm, multivariate_student_t, gstm, celeux_one, celeux_two: ALL label vectors (K<=3/4, n<=4/5) and ALL n! final permutations (n<=5) are fed as answers; the requests made to the source must carry the documented parameters (sqrt(variance) for d=1, corner means, Celeux tables) and the output must be the documented assembly of the answers (row i is a fresh draw of component y[i], Student-t = loc+sqrt(df/u)z, joint shuffle, linear dependencies). Identical seeds, shapes, label ranges and the rejection menu are checked with the real source; a seeded 6-sigma moment check is a backstop and the arbiter when the request pattern is not recognised. A distribution-free explorer (far-apart tight components x all label vectors incl. empty components) does not depend on how the random source is asked; all-integer parameters included.",
    "numpy's samplers are trusted; Celeux tables typed by hand from the documentation.",
    "5/C20")
CHECKS["C15"] = ("exploration",
    "bounded-exhaustive enumeration of feature masks, cut-point vectors in all storage orders, temperatures and grid cells on the real Douglas model",
    "d<=3 with ALL non-empty feature masks (+None) x n_cuts 1..3 x temperatures {10,1,0.1,0.02} x ALL storage orders of the cut-point vectors: masked columns are perturbed (bitwise-equal predictions), leaf count (n_cuts+1)^used, soft-bin and leaf memberships are probability vectors, and at temperature 0.02 two probe points in every grid cell (cell = number of cut points below the value, per feature) must get the same prediction. find_active_points is compared with its definition for ALL cut vectors over a menu (including cuts equal to the feature's min/max) against data of known range.",
    "Cut points are set on the fitted attribute to enumerate orders; cells narrower than 1.0 are not probed.",
    "5/C15")
CHECKS["C04"] = ("exploration",
    "deviation-bounded exhaustive enumeration of estimator configurations (all 18 estimators, every single-axis deviation, coupled/all axis pairs) x data shapes x input forms on the real fit, with an independent coherence oracle",
    "For each of the 18 estimators and data shapes (3,1),(4,2),(6,3): the default configuration in five input forms, every configuration with one documented-valid parameter value deviating (13 GEMINI names, instances, None, solver, every batch size 1..n+1, every n_clusters 1..n, kernel/metric menus with parameters/callables/precomputed, ovo, reg, groups, alpha, M, dynamic, n_cuts, temperature, feature_mask, tree limits) and two deviations on coupled axes (all axis pairs in thorough) are fitted for real: no exception, labels_ shape/range, predict_proba rows are probability vectors, predict = argmax = labels_, score = reference GEMINI (oracles/gemini.py) of predict_proba on the given data, n_iter_/optimiser_ reflect max_iter/solver, Kauri labels in range with a tree and score = objective. A history axis refits the same configuration on narrower / wider / shorter data (hyperparameters must be unchanged), and predict_proba / score must be identical on a second identical call.",
    "Bounded to n<=6, d<=3 and deviation bound 1-2 from a small default configuration.",
    "5/C04")
CHECKS["C18"] = ("exploration",
    "bounded-exhaustive enumeration of all row subsets and permutations of small arrays on fitted inductive estimators",
    "For each of the 15 inductive estimators and a few fitted states, predict/predict_proba on ALL 31 non-empty subsets and ALL 120 permutations of 5 new points and of the 5 training points must return the corresponding rows of the full-array prediction (labels exact, probabilities 1e-12), independent of memory layout, and predict(train)==labels_ (KernelRIM evaluates its kernel against the stored training points). Integer / float32 typed queries, an array longer than the training set, time-stamp-like features and a refit of an object that had already predicted are included.",
    "5 rows per array; BLAS shape effects tolerated at 1e-12.",
    "5/C18")
CHECKS["C11"] = ("exploration",
    "bounded-exhaustive enumeration of kernel/metric/ovo/gemini hyperparameter values on all estimators exposing them, with independently constructed expectations and a named-vs-precomputed differential oracle on real fits/paths",
    "Every estimator exposing kernel/metric/ovo/gemini/base_kernel x every accepted value (names with and without non-default parameter dictionaries, callables, precomputed, both ovo flags, gemini None / 13 names / instances): get_gemini().compute_affinity must equal scikit-learn called directly (bitwise), the callable's output or the user's matrix, and evaluate on probe predictions must equal the textbook reference of the described (distance, OvA/OvO). Missing precomputed matrices must raise. Differential: fit / path / score with a named kernel or metric and with the same matrix given as 'precomputed' must give bitwise-equal fitted attributes, path histories, best weights and scores (gradient models with and without mini-batches, Kauri). A 'reconfigured' explorer uses an estimator, changes kernel/metric/ovo/gemini with set_params and requires bitwise agreement with a fresh estimator; parameter dictionaries with zero values / without gamma, a second data set of another width and 'user dictionary untouched' are included.",
    "scikit-learn's pairwise functions are the meaning of names; small data (n=5..8).",
    "5/C11")
CHECKS["C12"] = ("model_checking",
    "explicit-state BFS over histories of public calls on real estimators with a differential oracle (history;fit vs fresh fit), plus a cross-process order differential for process-global state",
    "For each of the 18 estimators (1-3 configurations) all histories up to depth 2 (quick) / 4 (thorough) over the alphabet fit(X1), fit(X2 other shape), fit(X3 same shape), fit_predict, predict, predict_proba, score, set_params(several), path (sparse), clone are replayed on fresh real objects; states are deduplicated by (class, hyperparameters, digest of all fitted attributes incl. optimiser state). In every state: history;fit(X1) equals a fresh estimator's fit(X1) on every attribute bitwise, same for clone and for path, caller arrays are bit-identical and writeable, hyperparameters change only through set_params, get_params/set_params/clone round-trip. A second explorer repeats fits/paths of same-shaped data sets in a different order in a fresh interpreter to expose module-level state. Also: pure-query oracle (histories with predict/predict_proba/score answer later queries like the same history without them), decorated configurations, partial groups, alpha=0, calls without the precomputed matrix.",
    "Depth-bounded; merged states have the same futures because public methods only read hyperparameters and fitted attributes.",
    "5/C12")
CHECKS["C16"] = ("exploration",
    "bounded-exhaustive enumeration of a hand-written hyperparameter domain table (one deviation from a valid base), all small group lists, malformed data menu and calls before fit, on the real estimators/functions with an optimiser-step counter",
    "For every constructor hyperparameter of the 18 estimators, of the GEMINI constructors, add_mlcl_constraint, print_kauri_tree and the 5 data functions, a probe menu of in-domain values (must be accepted) and out-of-domain values (just outside each interval end, 0, -1, None, wrong types) is applied with exactly one deviation from a valid base: out-of-domain must raise a ValueError/TypeError-family error before any optimiser step and leave no labels_. ALL lists of up to 3 non-empty groups over {-1..3} for d=3 (overlap, out of range, partial, full), the 2*min_samples_leaf vs min_samples_split grid, a malformed-data menu on all estimators and all public calls before fit complete it.",
    "Ambiguous values (bool for int, numpy scalars, lists where arrays are documented) are not probed.",
    "5/C16")
CHECKS["C17"] = ("exploration",
    "bounded-exhaustive enumeration of estimators x GEMINIs x solvers x degenerate data families with a finiteness monitor on every optimiser step of the real fit/path",
    "All 18 estimators x 13 GEMINIs (generic models) x solver x data family {plain, x10, x1000, 1e-6 scale, constant column, duplicated column, duplicated rows, all rows equal, n=K} x n_clusters {1,3} x batch_size {None,1} x {fit, path}: no exception, every direction handed to the optimiser and every parameter after every step finite, finite weights, probabilities, score and path histories - a NaN hidden later by an arg-max is seen at the step where it appears.",
    "n=6, d=3, 3 epochs; saturated-prediction behaviour of the GEMINIs themselves is covered by C13 on the closed simplex.",
    "5/C17")
NOT_APPLICABLE = {}

# what the six rounds of independent seeded changes added to each check (DESIGN.md 10.6 / 10.7)
EXTENSIONS = {
 "C01": "Further explorers: hundreds-thousands of samples and up to 64 clusters (sizes straddling the powers of two; Wasserstein against a closed-form 1-D reference), count data in every numeric container (uint8..int64, float32, lists, Fortran, read-only, strided), memory layouts, in-place edit histories and long-lived objects, affinities of magnitude 1e-10..1e8 and matrices clean only up to rounding.",
 "C02": "Also: tolerances relative to the affinity magnitude (1e-9-unit metrics), near-coincident clusters (logits of size 1e-6/1e-9) for Wasserstein and TV, non-default clipping epsilon, the returned gradient array must stay that gradient after later evaluations of any object, Fortran-ordered predictions.",
 "C03": "Also: hyperparameters arriving through set_params on a default / used estimator, verbose mode, sparse models trained by path(), one-feature Douglas, hub constraints, a monitored fit after an earlier fit.",
 "C04": "Also: every single-axis configuration reached by set_params on a used default estimator, input forms (Fortran, int, float32, lists, read-only, strided, numpy-scalar hyperparameters, zero/constant columns, duplicate rows, x1000), strong penalties on never-varying features, a label vector in the unused y slot, refits on other shapes, idempotent queries.",
 "C05": "Also: large shapes (K up to 300, d up to 150 with shuffled non-contiguous groups, h up to 200), storage dtypes (int64/int32/float32), read-only weights, memory layouts.",
 "C06": "Also: M=0, hyperparameters through set_params, and a history in which the same object was first trained with another group structure.",
 "C07": "Also: the score the path works with is recomputed independently at every validation call (selected features in dynamic mode), input forms (list, float32, Fortran, read-only), group structures, set_params route.",
 "C08": "Also: multisets over adjacent doubles and near the overflow limit, small / large magnitude kernels, the documented fallback path as history, set_params route, bookkeeping / explorable-leaves / stop-reason oracles.",
 "C09": "Also: trees with dozens of leaves on 80..1000 samples, adjacent-double / overflow data, numpy-integer limits through set_params, fallback history.",
 "C10": "Also: n in {33,130} with batch sizes around powers of two and n, numpy-integer batch sizes, verbose mode, refits on other sizes, indices recorded by the decoration at the moment of use, dynamic paths with a data-set-dependent user kernel.",
 "C11": "Also: a decoy y for named affinities, the matrix handed to fit_predict, integer / float32 / list data together with a float precomputed matrix, reconfiguration by set_params, user parameter dictionaries left untouched.",
 "C12": "Also: set_params events for every model-specific hyperparameter, pickle / deepcopy events, precomputed matrices clean only up to rounding, decorated configurations, pure-query oracle, and a process-isolation explorer that compares with a fresh interpreter after other objects of all 18 classes have worked in the process.",
 "C13": "Also: hundreds-thousands of samples (reversal, rotation, shuffle, swapped halves), prediction dtypes (float32; int/bool hard partitions), read-only arguments, reordered problems in Fortran order / strided views, in-place reordering by the caller.",
 "C14": "Also: training histories (refits, queries in between, path, constraints added in two calls, verbose mode) observed with a class-level spy; three constraint layouts.",
 "C15": "Also: transported copies of the fitted model, batch_size axis with whole-query-set public calls, query dtypes, distinct cells give distinct predictions, storage order of cut points, set_params route.",
 "C16": "Also: the whole must-link / cannot-link pair-set lattice as an inconsistent-combination domain, numeric text as non-numeric data, a refused estimator must refuse predict / score / print, the caller's groups list stays valid and unchanged.",
 "C17": "Also: a GEMINI-level explorer (degenerate affinities x degenerate predictions x n in {6,20,80}, integer / boolean hard partitions), copies-of-samples families, non-default kernels, set_params route.",
 "C18": "Also: large query arrays, integer / float32 queries, time-stamp-like features, refit of an object that had predicted before.",
 "C19": "Also: trees with dozens of leaves, adjacent-double / overflow data with a user kernel, +-1 ulp queries, same-shape refit history with predict / score / print in between, set_params route.",
 "C20": "Also: singular / structured scale matrices with a distribution-free support oracle, all-integer parameters, empty components with far-apart tight components over all label vectors, heterogeneous-unit mixtures in the reject menu.",
}


CROSS_CUTTING = ("Cross-cutting axes added by seeded rounds 7-9 (DESIGN.md 10.6): coinciding sizes (n == d == K); refused and fallback calls as events "
                 "before the judged call, under shown / silenced / error warning filters (mc/failures.py); the transport axis - the judged estimator or "
                 "objective after pickle, deepcopy and cloudpickle round trips, as a clone and as a clone given its hyperparameters again (mc/transport.py).")


def main():
    props = [json.loads(l)["id"] for l in open(os.path.join(HERE, "properties.jsonl"))]
    checks = []
    for pid in props:
        if pid not in CHECKS:
            continue
        level, tech, text, note, ref = CHECKS[pid]
        text = text + " " + EXTENSIONS.get(pid, "") + " " + CROSS_CUTTING
        checks.append({
            "property_id": pid,
            "quick_cmd": f"./check {pid} --tier quick",
            "thorough_cmd": f"./check {pid} --tier thorough",
            "evidence_file": f"/verif/evidence/{pid}.json",
            "replay_cmd_template": f"./check {pid} --replay {{path}}",
            "engine": "mc",
            "level_claimed": {"category": level, "text": text, "design_ref": f"DESIGN.md section {ref}"},
            "level_note": note,
            "technique": tech,
        })
    na = [{"property_id": p, "reason": NOT_APPLICABLE.get(p, "check not built yet in this revision of /verif (planned, see DESIGN.md section 5); not claimed until its explorer exists")}
          for p in props if p not in CHECKS]
    man = {
        "version": 1,
        "setup_cmd": "/venv/bin/python -c \"import numpy, sklearn, ot, scipy\" && chmod +x /verif/check",
        "hooks": {
            "guard": "GEMCLUS_VERIF",
            "enable": "no source hooks: all seams are taken in-process by the harness (DESIGN.md section 1); ./check exports GEMCLUS_VERIF=1 for form",
            "baseline_off_cmd": "cd /repo && /venv/bin/python -m pytest -ra -q -p no:cacheprovider --timeout=900 --continue-on-collection-errors",
            "source_commits": [],
            "add_only": True,
        },
        "engines": [{"name": "mc", "path": "/verif/mc", "serves_properties": sorted(CHECKS),
                     "kind_free_text": "hand-written bounded-exhaustive explorers (lattice enumeration, explicit-state BFS over real objects, deviation-bounded environment-answer exploration) executing the real implementation"}],
        "checks": checks,
        "not_applicable": na,
        "notes": "All checks run the gemclus package imported from /repo's working tree. Exit 0 = held, 1 = VIOLATION, 2 = the check itself is broken (vacuous/nondeterministic).",
    }
    json.dump(man, open(os.path.join(HERE, "MANIFEST.json"), "w"), indent=1)

if __name__ == "__main__":
    main()
