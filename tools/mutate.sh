#!/bin/bash
# usage: mutate.sh <check-id> <file-relative-to-repo> <python-regex-or-literal-old> <new>   (literal replace, first occurrence)
# Applies a one-line edit to /repo, runs ./check <id> (quick), reverts. Prints the tail of the check output.
ID=$1; F=$2; OLD=$3; NEW=$4; shift 4
cd /repo || exit 9
/venv/bin/python - "$F" "$OLD" "$NEW" <<'PY' || exit 9
import sys
f, old, new = sys.argv[1:4]
s = open(f).read()
if old not in s:
    print("MUTATION-TARGET-NOT-FOUND"); sys.exit(1)
open(f, "w").write(s.replace(old, new, 1))
PY
cd /verif && ./check $ID "$@" > /tmp/mut_$ID.log 2>&1; rc=$?
cd /repo && git checkout -- . 
echo "exit=$rc  $(grep -c '^VIOLATION' /tmp/mut_$ID.log) VIOLATION lines; $(grep -E '^\[.*tier=' /tmp/mut_$ID.log)"
grep -m2 -A2 '^VIOLATION' /tmp/mut_$ID.log | cut -c1-300
