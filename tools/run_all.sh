#!/bin/bash
# usage: tools/run_all.sh [tier] ; runs every claimed check, prints exit code and wall time per property
TIER=${1:-quick}
cd /verif
for id in $(python3 -c "import json; print(' '.join(c['property_id'] for c in json.load(open('MANIFEST.json'))['checks']))"); do
  s=$(date +%s.%N)
  ./check $id --tier $TIER > /tmp/run_$id.log 2>&1; rc=$?
  e=$(date +%s.%N)
  printf "%s exit=%s %.1fs  %s\n" $id $rc $(echo "$e - $s" | bc) "$(grep -c '^KNOWN-FINDING' /tmp/run_$id.log) known-finding lines; $(grep -E '^BROKEN|^VIOLATION' /tmp/run_$id.log | head -2 | cut -c1-150)"
done
