#!/bin/bash
# usage: tools/seed_eval.sh <seed-name> <check-id> [<check-id> ...]
# Applies /verif/seeded/<name>/patch.diff to /repo, runs the given checks (quick tier), undoes the patch, and records the result in meta.json.
NAME=$1; shift
D=/verif/seeded/$NAME
cd /repo || exit 9
if [ -n "$(git status --porcelain --untracked-files=no)" ]; then echo "/repo has uncommitted changes: refusing"; exit 9; fi
git apply $D/patch.diff || { echo "patch does not apply"; exit 3; }
RES=""
for id in "$@"; do
  cd /verif && ./check $id --tier quick > /tmp/seedeval_${NAME}_$id.log 2>&1; rc=$?
  nv=$(grep -c '^VIOLATION' /tmp/seedeval_${NAME}_$id.log)
  kinds=$(grep -o 'kind=[a-z_A-Z]*' /tmp/seedeval_${NAME}_$id.log | sort | uniq -c | sort -rn | head -4 | awk '{print $2"("$1")"}' | tr '\n' ' ')
  RES="$RES$id:exit=$rc:violation_lines=$nv:$kinds;"
done
cd /repo && git checkout -- . 
python3 - "$NAME" "$RES" <<'PY'
import json, sys, os
name, res = sys.argv[1], sys.argv[2]
d = f"/verif/seeded/{name}"
meta = {}
if os.path.exists(f"{d}/meta.json"):
    meta = json.load(open(f"{d}/meta.json"))
agent = json.load(open(f"{d}/agent_meta.json")) if os.path.exists(f"{d}/agent_meta.json") else {}
conf = json.load(open(f"{d}/confirm.json")) if os.path.exists(f"{d}/confirm.json") else {}
meta.update({"seed": name, "property": agent.get("property", name.split("-")[0]), "files_changed": agent.get("files_changed"),
             "what_it_breaks": agent.get("what_it_breaks"), "needs_to_manifest": agent.get("needs_to_manifest"),
             "written_by": "independent sub-agent given only the property text and a scratch worktree",
             "confirmed_in_scratch_worktree": conf})
runs = meta.setdefault("checks_run_with_patch_applied_to_repo", {})
for part in filter(None, res.split(";")):
    f = part.split(":")
    runs[f[0]] = {"exit": int(f[1].split("=")[1]), "violation_lines": int(f[2].split("=")[1]), "violation_kinds": f[3].strip()}
meta["caught_by"] = sorted(k for k, v in runs.items() if v["exit"] == 1)
json.dump(meta, open(f"{d}/meta.json", "w"), indent=1)
print(name, "caught_by", meta["caught_by"], {k: v["exit"] for k, v in runs.items()})
PY
