#!/bin/bash
# Re-runs every kept seeded change against the check of its own property (patch applied to /repo, undone afterwards).
cd /verif
for d in seeded/*/; do n=$(basename $d); id=${n%%-*}; tools/seed_eval.sh $n $id 2>&1 | tail -1; done
