#!/bin/bash
# Re-runs every kept seeded change against the check of its own property in ONE scratch worktree of /repo's HEAD (outside /repo and /verif),
# so that /repo itself stays untouched and other work can go on; prints one line per seed and a summary. The worktree is removed at the end.
# usage: tools/seed_regress_wt.sh [workers]
W=${1:-8}
WT=/tmp/regress_wt
git -C /repo worktree remove --force $WT 2>/dev/null; rm -rf $WT
git -C /repo worktree add -q --detach $WT HEAD || exit 9
cp /repo/gemclus/tree/_utils.cpython-312-x86_64-linux-gnu.so $WT/gemclus/tree/
cd /verif
miss=0; total=0
for d in seeded/*/; do
  n=$(basename $d); id=${n%%-*}
  [ "$id" = "C02" ] && [ "$n" = "C02-c" ] && id=C01      # C02-c changes the score (the gradient stays its derivative): C01 is where it belongs
  git -C $WT apply /verif/$d/patch.diff 2>/dev/null || { echo "$n PATCH-DOES-NOT-APPLY"; continue; }
  VERIF_WORKERS=$W VERIF_REPO=$WT VERIF_OUT=/tmp/regress_out ./check $id --tier quick > /tmp/regress_$n.log 2>&1; rc=$?
  git -C $WT checkout -q -- .
  total=$((total+1)); [ $rc -ne 1 ] && miss=$((miss+1))
  echo "$n check=$id exit=$rc"
done
git -C /repo worktree remove --force $WT
echo "REGRESS-DONE seeds=$total not_caught=$miss"
