#!/usr/bin/env python3
"""
usage: tools/seed_round.py <round-number> <letter> "<theme paragraph file>"
Prepares one round of independently written property-breaking changes: for every property a scratch worktree /tmp/wt<r>_<ID> of /repo's HEAD
(with the compiled helper copied in), an output directory /tmp/out<r>_<ID> holding property.txt (the property text only) and prompt.txt.
The sub-agents get nothing from /verif; previous seeds of the same property are summarised (mechanism only) so that the new change differs.
"""
import glob
import json
import os
import subprocess
import sys

r, letter, theme_file = sys.argv[1], sys.argv[2], sys.argv[3]
theme = open(theme_file).read().strip()
props = [json.loads(l) for l in open("/verif/properties.jsonl")]
SO = "gemclus/tree/_utils.cpython-312-x86_64-linux-gnu.so"
for p in props:
    pid = p["id"]
    wt, out = f"/tmp/wt{r}_{pid}", f"/tmp/out{r}_{pid}"
    subprocess.run(["git", "-C", "/repo", "worktree", "remove", "--force", wt], capture_output=True)
    subprocess.run(["rm", "-rf", wt, out])
    subprocess.run(["git", "-C", "/repo", "worktree", "add", "-q", "--detach", wt, "HEAD"], check=True)
    subprocess.run(["cp", f"/repo/{SO}", f"{wt}/{SO}"], check=True)
    os.makedirs(out)
    with open(f"{out}/property.txt", "w") as f:
        f.write(f"Property {pid}: {p['title']}\n\nStatement: {p['statement']}\n\nQuantifier: {p['quantifier']['text']}\n\n"
                f"Anchored in: {', '.join(p['anchors']['files'])}\n")
    prev = []
    for d in sorted(glob.glob(f"/verif/seeded/{pid}-*")):
        if d.endswith("-" + letter):
            continue
        for name in ("agent_meta.json", "meta.json"):
            if os.path.exists(f"{d}/{name}"):
                m = json.load(open(f"{d}/{name}"))
                prev.append((str(m.get("what_it_breaks", ""))[:260].replace("\n", " "), m.get("files_changed")))
                break
    prev_txt = "\n".join(f"  PREVIOUS {i + 1}: {t}  (files: {f})" for i, (t, f) in enumerate(prev))
    prompt = f"""You are helping to evaluate a verification effort by writing ONE realistic, subtle bug ("seeded change") for the Python library GemClus (scikit-learn compatible discriminative clustering: GEMINI objectives, sparse feature selection, KAURI/Douglas trees).

Your private scratch copy of the repository (a git worktree, already set up, importable) is:  {wt}
Work ONLY inside that directory and inside your output directory {out} . Do NOT read or use anything under /verif or /repo (they are off limits: your change must be independent of any existing checking machinery). Do not commit; leave your change as an uncommitted modification of the worktree.

The semantic property your change must BREAK is in {out}/property.txt . Read it carefully, then read the code it is anchored in.

Requirements for the change:
1. It modifies only library source files under {wt}/gemclus (not tests, not docs). Note: Cython is NOT installed, gemclus/tree/_utils.pyx cannot be recompiled, so edits to the .pyx have no effect - change Python files only.
2. The library still imports, and EVERY test of the repository's own suite that passes on the unmodified worktree still passes with your change. The tests that already fail on the unmodified tree are listed in /tmp/known_failing_tests.txt (28 of them; ignore those). Run the suite with:
      cd {wt} && OMP_NUM_THREADS=1 OPENBLAS_NUM_THREADS=1 /venv/bin/python -m pytest -q -p no:cacheprovider --timeout=900 gemclus 2>&1 | tail -40
   (takes about 4 minutes; you may first run only the most relevant test files, but run the whole suite at least once at the end and compare the failing set with the list).
3. The change must make the property FALSE for some input / configuration / call history, but it should need something SPECIFIC to manifest - a particular batch size or permutation, a multi-step sequence of calls, an unusual but legal input (ties, one cluster, a particular group structure, a non-contiguous index set...), a particular combination of two hyperparameters, or two cooperating code sites that each look fine alone. It must NOT be something that ordinary default use exposes at once (e.g. not "fit always crashes", not "every score is wrong by a factor 2").
4. It should look like a plausible mistake or refactoring slip a maintainer could make (off-by-one, wrong axis, stale cached value, swapped branch in a rare case, wrong variable reused, condition that is too weak/strong, state leaking between calls ...), not sabotage with magic constants.

Deliverables, all in {out} :
 - patch.diff : output of `git -C {wt} diff` (must apply with `git apply` on the unmodified tree).
 - demo.py    : a small standalone program, run as `cd {wt} && /venv/bin/python {out}/demo.py`, that checks the property on the specific input that exposes your change: it must exit with status 1 (printing what went wrong) on the modified tree and exit 0 on the unmodified tree. Verify BOTH. IMPORTANT: do NOT use `git stash` (the stash is shared between several worktrees used by other people): to switch to the unmodified tree run `git -C {wt} diff > {out}/patch.diff && git -C {wt} apply -R {out}/patch.diff`, and `git -C {wt} apply {out}/patch.diff` to switch back. The demo must start with `import sys, os; sys.path.insert(0, os.getcwd())` so that it imports the gemclus of the directory it is run from (otherwise an installed copy elsewhere is imported). The demo must judge against the property statement (an independent computation of what the right answer is), not merely compare against a hard-coded number copied from the old behaviour, where that is feasible.
 - meta.json  : {{"property": "<id>", "files_changed": [...], "what_it_breaks": "...", "needs_to_manifest": "...", "why_tests_still_pass": "...", "commands_run": [...]}}

Finish by printing a 5-line summary of what you changed and what it needs to manifest. Keep the change small (a few lines).


IMPORTANT - diversity: {len(prev)} previous, independent changes for this same property already did the following; yours MUST be of a DIFFERENT nature (different code site where possible, different mechanism AND different triggering condition); do not repeat or vary them:
{prev_txt}
{theme}
"""
    open(f"{out}/prompt.txt", "w").write(prompt)
    print(pid, len(prev), "previous")
