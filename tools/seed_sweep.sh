#!/bin/bash
# usage: tools/seed_sweep.sh <seed> [<seed> ...] : all quick checks on the unchanged tree for several VERIF_SEED values; prints only non-zero exits
cd /verif
for sd in "$@"; do echo "== VERIF_SEED=$sd"; VERIF_SEED=$sd tools/run_all.sh quick 2>&1 | grep -v "exit=0"; done
echo SWEEP-DONE
