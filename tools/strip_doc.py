"""Print python files with long docstrings elided (reading aid)."""
import ast, sys
def strip(path):
    src=open(path).read()
    tree=ast.parse(src)
    lines=src.split('\n')
    kill=set()
    for node in ast.walk(tree):
        if isinstance(node,(ast.FunctionDef,ast.ClassDef,ast.Module)):
            if node.body and isinstance(node.body[0],ast.Expr) and isinstance(getattr(node.body[0],'value',None),ast.Constant) and isinstance(node.body[0].value.value,str):
                d=node.body[0]
                if d.end_lineno-d.lineno>3:
                    for i in range(d.lineno+1,d.end_lineno): kill.add(i)
    for i,l in enumerate(lines,1):
        if i not in kill: print(f"{i}\t{l}")
for p in sys.argv[1:]:
    print("=====",p); strip(p)
